/* Frozen virtual clock for the driver: LD_PRELOAD this library and set
 * SCVERIF_FAKE_EPOCH=<seconds since 1970-01-01T00:00:00Z>. Only CLOCK_REALTIME (and the
 * legacy gettimeofday/time entry points) are frozen; monotonic and CPU clocks are real. */
#define _GNU_SOURCE
#include <dlfcn.h>
#include <stdlib.h>
#include <time.h>
#include <sys/time.h>

static long long fake_epoch(int *on) {
    static int init = 0, enabled = 0;
    static long long value = 0;
    if (!init) {
        const char *s = getenv("SCVERIF_FAKE_EPOCH");
        if (s && *s) { value = atoll(s); enabled = 1; }
        init = 1;
    }
    *on = enabled;
    return value;
}

int clock_gettime(clockid_t clk, struct timespec *ts) {
    static int (*real)(clockid_t, struct timespec *) = 0;
    int on;
    long long v = fake_epoch(&on);
    if (on && (clk == CLOCK_REALTIME || clk == CLOCK_REALTIME_COARSE)) {
        ts->tv_sec = (time_t)v;
        ts->tv_nsec = 0;
        return 0;
    }
    if (!real) real = (int (*)(clockid_t, struct timespec *))dlsym(RTLD_NEXT, "clock_gettime");
    return real(clk, ts);
}

int gettimeofday(struct timeval *tv, void *tz) {
    static int (*real)(struct timeval *, void *) = 0;
    int on;
    long long v = fake_epoch(&on);
    if (on) {
        if (tv) { tv->tv_sec = (time_t)v; tv->tv_usec = 0; }
        return 0;
    }
    if (!real) real = (int (*)(struct timeval *, void *))dlsym(RTLD_NEXT, "gettimeofday");
    return real(tv, tz);
}

time_t time(time_t *out) {
    static time_t (*real)(time_t *) = 0;
    int on;
    long long v = fake_epoch(&on);
    if (on) {
        if (out) *out = (time_t)v;
        return (time_t)v;
    }
    if (!real) real = (time_t (*)(time_t *))dlsym(RTLD_NEXT, "time");
    return real(out);
}

"""C01 - evaluation is total. See DESIGN.md 3.C01."""

import re

from . import gen_hostile as gh
from .core import bits2f
from .numfmt import SEP_CONFIGS

SPEC = {
    'rule': ('texts from five hostile generators (lexeme soup over the whole lexicon, mutated repository test lines, '
             'extreme instances of the other properties\' phrases, case-length-changing / multi-byte Unicode, 1-40 line '
             'assemblies with LF/CRLF and sentinel lines) x language tags (en, tr, unknown) x separator / digit / zone '
             'configurations reachable through the setters x virtual dates, through execute and through a re-used Session; thorough tier: '
             'one shard runs a coverage-guided libFuzzer target (workload generator only: its artifacts and corpus are re-judged through the driver); '
             'a case is non-trivial when the text contains at least one non-blank line; distinct = distinct '
             '(configuration, language, text)'),
    'min_nontrivial': 500,
    'budget_s': {'quick': 55, 'thorough': 540},
    'assumptions': ['non-termination is restated as bounded progress: step budget 20000+200*len(text) loop iterations (hook H1) '
                    'and 60 CPU-seconds per op', 'line length <= 4096 characters, <= 40 (+sentinel) lines per text'],
}


def msg_class(msg):
    m = msg.lower()
    m = re.sub(r'[0-9]+', 'N', m)
    m = re.sub(r'[^a-zN]+', '-', m).strip('-')
    return m[:48]


def fn_name(fn):
    fn = re.sub(r'::h[0-9a-f]{16}$', '', fn or '?')
    fn = re.sub(r'<([^<>]|<[^<>]*>)*>', '<>', fn)
    return fn


def panic_sig(p):
    msg = p.get('msg', '')
    if msg.startswith('verif: step budget exceeded at '):
        return 'steps@' + msg.rsplit(' ', 1)[1]
    return 'panic@%s:%s' % (fn_name(p.get('fn')), msg_class(msg))


def judge(res, text, nslots, sentinels, sane_cfg):
    """-> list of (sig, what)"""
    out = []
    if 'panic' in res:
        p = res['panic']
        out.append((panic_sig(p), 'panic: %s at %s in %s' % (p.get('msg'), p.get('loc'), p.get('fn'))))
        return out
    if 'hang' in res:
        out.append(('cpu', 'no result after %s CPU-seconds' % res['hang']['cpu_s']))
        return out
    if 'crash' in res:
        out.append(('signal:%s' % res['crash']['rc'], 'driver process died (rc=%s)' % res['crash']['rc']))
        return out
    if 'driver_error' in res:
        out.append(('driver_error', res['driver_error']))
        return out
    if res.get('status') is not True:
        out.append(('status', 'status is %r' % res.get('status')))
    lines = res.get('lines', [])
    if len(lines) != nslots:
        out.append(('slots', '%d slots for %d lines' % (len(lines), nslots)))
        return out
    for k, slot in enumerate(lines):
        if slot is None:
            continue
        if 'err' in slot:
            if not isinstance(slot['err'], str) or not slot['err']:
                out.append(('slot-shape', 'slot %d: empty error message' % k))
        elif 'out' in slot:
            if not isinstance(slot['out'], str):
                out.append(('slot-shape', 'slot %d: output is not a string' % k))
        else:
            out.append(('slot-shape', 'slot %d is neither empty, a value nor an error' % k))
    if sane_cfg and '=' not in text:
        for k, want in sentinels.items():
            slot = lines[k]
            ok = slot is not None and 'v' in slot and slot['v'].get('k') == 'number' and bits2f(slot['v']['bits']) == want
            if not ok:
                out.append(('sentinel', 'sentinel line %d should evaluate to %r, slot is %r' % (k, want, slot)))
                break
    return out


def isolate(drv, cfg_ops, lang, text, sig):
    """Find a single line of `text` that alone reproduces signature `sig` (witness shrinking)."""
    parts = re.split(r'\r\n|\n', text)
    if len(parts) == 1:
        return text
    ops = list(cfg_ops) + [{'op': 'execute', 'lang': lang, 'text': p} for p in parts]
    rs = drv.run(ops)[len(cfg_ops):]
    for p, r in zip(parts, rs):
        for s_, _ in judge(r, p, 1, {}, False):
            if s_ == sig:
                return p
    return text


FAMILY_WORDS = ['qa', 'qb', 'qc', 'qd', 'qe']
STOCK_EXTRA_WORDS = ['nm', 'megam', 'mm', 'km']          # items an application adds to the built-in length table (below its first index / above its last), and two of its own


def user_family_ops(rng):
    """add_dynamic_type + items at a random subset of the indices 1..6 (gaps allowed), with up/down formulas that divide, multiply
    or keep the value; plus two custom rules"""
    ops = [{'op': 'add_type', 'name': 'qfam'}]
    idx = sorted(rng.sample(range(0 if rng.random() < 0.3 else 1, 7), rng.randint(2, 5)))          # index 0 is a legitimate usize, too
    if rng.random() < 0.3:
        # items added to a built-in table: one below its first index, one above its last; a unit registered with no name
        ops.append({'op': 'add_type_item', 'name': 'metric-length', 'index': 0, 'format': '{value} Nanometer', 'parse': ['{NUMBER:value} {TEXT:type:nm}'],
                    'up': '{value} / 1000000', 'down': '{value}', 'names': rng.choice([['nm'], ['nm', 'nanometer'], []])})
        ops.append({'op': 'add_type_item', 'name': 'metric-length', 'index': 9, 'format': '{value} Megameter', 'parse': ['{NUMBER:value} {TEXT:type:megam}'],
                    'up': '{value}', 'down': '{value} * 1000', 'names': rng.choice([['megam'], []])})
    for word, i in zip(FAMILY_WORDS, idx):
        f = rng.choice(['{value} / 2', '{value} * 2', '{value}', '{value} / 10', '{value} * 1000', '{value} / 0', '{value} - 1'])
        g = rng.choice(['{value} * 2', '{value} / 2', '{value}', '{value} * 10', '{value} / 1000', '0', '{value} + 1'])
        ops.append({'op': 'add_type_item', 'name': 'qfam', 'index': i, 'format': '{value} %s' % word.upper(), 'parse': ['{NUMBER:value} {TEXT:type:%s}' % word],
                    'up': f, 'down': g, 'names': [word] if rng.random() < 0.9 else []})
    ops.append({'op': 'add_rule', 'lang': 'en', 'patterns': ['zork {NUMBER:a} {NUMBER:b}', '{NUMBER:a} zork'], 'spec': {'name': 'r1', 'kind': 'encode', 'weights': {'a': 1}}})
    ops.append({'op': 'add_rule', 'lang': rng.choice(['en', 'tr', 'xx']), 'patterns': ['blip {TEXT:t}'], 'spec': {'name': 'r2', 'kind': rng.choice(['decline', 'const']), 'value': 7}})
    # pattern strings an application may hand over by mistake: empty, blank, comment-only, broken fields, no amount field ...
    if rng.random() < 0.6:
        bad = lambda: rng.choice(HOSTILE_PATTERNS)
        # (as the pattern of a unit, '{NUMBER:value}' alone turns every number of a line into a quantity, one full walk of the unit table per
        # number: quadratic work that ends, but exceeds the step budget on long hostile lines - not used for units)
        bad_unit = lambda: rng.choice([p_ for p_ in HOSTILE_PATTERNS if p_ != '{NUMBER:value}'])
        k = rng.randrange(4)
        if k == 0:
            p_ = bad()
            # (a rule that answers a number for the pattern '{NUMBER:value}' matches its own answer for ever: an endless rewrite the
            # application asked for, not a defect - that pattern gets a declining rule)
            ops.append({'op': 'add_rule', 'lang': rng.choice(['en', 'tr']), 'patterns': [p_, 'zonk {NUMBER:a}'],
                        'spec': {'name': 'r3', 'kind': 'decline' if p_ == '{NUMBER:value}' else 'const', 'value': 3}})
        elif k == 1:
            ops.append({'op': 'set_date_rule', 'lang': 'en', 'patterns': ['{NUMBER:day}/{NUMBER:month}/{NUMBER:year}', bad(), '{NUMBER:day} {MONTH:month} {NUMBER:year}']})
        elif k == 2:
            ops.append({'op': 'add_type_item', 'name': 'qfam', 'index': 9, 'format': '{value} QZ', 'parse': [bad_unit(), '{NUMBER:value} {TEXT:type:qz}'], 'up': '{value}', 'down': '{value}', 'names': ['qz']})
        else:
            ops.append({'op': 'add_type_item', 'name': 'qfam', 'index': 8, 'format': rng.choice(['{value} QY', 'QY', '', '{value} {value}']), 'parse': [bad_unit()], 'up': bad(), 'down': rng.choice(['{value}', '', '{value} /']), 'names': ['qy']})
    return ops


HOSTILE_PATTERNS = ['', '   ', '# comment', '{', '}', '{NUMBER}', '{NUMBER:}', '{FOO:x}', '{TEXT:a:}', '{NUMBER:a', '{GROUP:g:nosuch_group} {NUMBER:n}', '{NUMBER:a} {NUMBER:a}',
                    '[NUMBER:5]', '{DYNAMIC_TYPE:x}', '5', '+', '=', 'a = {NUMBER:b}', '{TEXT:type:qz}', '{NUMBER:value}', '{MONTH:m}', '{TIMEZONE:z} {TIME:t}']


def family_text(rng):
    w = lambda: rng.choice(FAMILY_WORDS if rng.random() < 0.75 else STOCK_EXTRA_WORDS)
    n = lambda: rng.choice(['0', '1', '8', '2,5', '1000', '-3', '1e3', '99999999999'])
    lines = []
    for _ in range(rng.randint(1, 4)):
        k = rng.randrange(8)
        if k == 0:
            lines.append('%s %s to %s' % (n(), w(), w()))
        elif k == 1:
            lines.append('%s %s %s %s %s' % (n(), w(), rng.choice('+-*/'), n(), w()))
        elif k == 2:
            lines.append('zq = %s %s to %s' % (n(), w(), w()))
        elif k == 3:
            lines.append('zq to %s' % w())
        elif k == 4:
            lines.append('%s %s as %s to %s' % (n(), w(), w(), w()))
        elif k == 5:
            lines.append('zork %s %s' % (n(), n()))
        elif k == 6:
            lines.append('blip %s' % w())
        else:
            lines.append('%s %s %s' % (n(), w(), gh.hostile_line(rng, long_tail=False)[:60]))
    return rng.choice(['\n', '\r\n']).join(lines)


FUZZ_LANGS = ['en', 'tr', 'xx', 'en']
FUZZ_CFGS = [
    {'dec': ',', 'thou': '.', 'digits': 2, 'rm': True, 'round': True, 'tz': 'UTC'},
    {'dec': '.', 'thou': ',', 'digits': 2, 'rm': True, 'round': True, 'tz': 'UTC'},
    {'dec': '.', 'thou': '', 'digits': 2, 'rm': True, 'round': True, 'tz': 'GMT+5:30'},
    {'dec': ',', 'thou': '.', 'digits': 9, 'rm': False, 'round': False, 'tz': 'EST'},
]


def fuzz_lens(ctx):
    """Lens 6 (thorough tier, one shard): a libFuzzer target built from /repo's working tree (cargo +nightly fuzz, no sanitizer,
    coverage feedback only) runs in fork mode for most of the budget; libFuzzer is only a *workload generator*: every artifact
    it leaves (crash, timeout, oom) and a sample of its final corpus are re-run through scdriver and judged by the same monitor.
    A missing toolchain / failed build is reported as a skipped lens, never as a verdict."""
    import glob
    import os
    import shutil
    import subprocess
    import time
    from . import core
    res = ctx.res
    rng = ctx.rng
    fdir = os.path.join(core.DRIVER_DIR, 'fuzz')
    work = os.path.join(core.WORK_DIR, 'fuzz-seed%d' % ctx.seed)
    shutil.rmtree(work, ignore_errors=True)
    os.makedirs(os.path.join(work, 'corpus'))
    os.makedirs(os.path.join(work, 'artifacts'))
    env = dict(os.environ)
    env['CARGO_NET_OFFLINE'] = 'true'
    env.pop('LD_PRELOAD', None)
    lock_src, lock_dst = os.path.join(core.REPO, 'Cargo.lock'), os.path.join(fdir, 'Cargo.lock')
    try:
        if os.path.exists(lock_src) and not os.path.exists(lock_dst):
            shutil.copy(lock_src, lock_dst)
        with open(os.path.join(core.WORK_DIR, 'fuzz-build.lock'), 'w') as lk:
            import fcntl
            fcntl.flock(lk, fcntl.LOCK_EX)
            b = subprocess.run(['cargo', '+nightly', 'fuzz', 'build', '-s', 'none', 'exec'], cwd=core.DRIVER_DIR, env=env,
                               stdout=subprocess.PIPE, stderr=subprocess.STDOUT, text=True, timeout=1500)
    except Exception as e:           # toolchain missing, timeout
        res.notes.append('libFuzzer lens skipped: %s' % (str(e)[:300],))
        res.count('fuzz_lens_skipped')
        return
    binary = os.path.join(fdir, 'target', 'x86_64-unknown-linux-gnu', 'release', 'exec')
    if b.returncode != 0 or not os.path.exists(binary):
        res.notes.append('libFuzzer lens skipped: the fuzz target did not build: %s' % (b.stdout[-400:].replace('\n', ' | '),))
        res.count('fuzz_lens_skipped')
        return
    # seed corpus from the hostile generators, dictionary from the lexicon
    for k in range(400):
        text = gh.hostile_line(rng, long_tail=False) if k % 4 else gh.hostile_text(rng, with_sentinels=False)[0]
        sel = rng.randrange(16)
        with open(os.path.join(work, 'corpus', 'seed%03d' % k), 'wb') as f:
            f.write(bytes([sel]) + text.encode('utf-8', 'replace')[:600])
    with open(os.path.join(work, 'dict.txt'), 'w', encoding='utf-8') as f:
        for w in sorted(set(gh.lexemes()))[:4000]:
            b_ = w.encode('utf-8')
            if 0 < len(b_) <= 24:
                f.write('"%s"\n' % ''.join('\\x%02x' % c for c in b_))
    total = max(30, int(ctx.deadline - time.time()) - 100)
    cmd = [binary, '-fork=4', '-ignore_crashes=1', '-ignore_timeouts=1', '-ignore_ooms=1', '-max_total_time=%d' % total, '-timeout=10', '-max_len=600',
           '-rss_limit_mb=4096', '-seed=%d' % (ctx.seed + 1), '-dict=' + os.path.join(work, 'dict.txt'),
           '-artifact_prefix=' + os.path.join(work, 'artifacts') + '/', os.path.join(work, 'corpus')]
    try:
        fz = subprocess.run(cmd, cwd=work, env=env, stdout=subprocess.PIPE, stderr=subprocess.STDOUT, text=True, errors='replace', timeout=total + 300)
        tail = [l for l in fz.stdout.splitlines() if l.startswith('#')][-1:] or ['']
    except subprocess.TimeoutExpired:
        tail = ['(libFuzzer did not stop in time; its corpus is used as it is)']
    res.notes.append('libFuzzer lens: %d s, last status line: %s' % (total, tail[0][:200]))
    m = re.search(r'#(\d+): cov: (\d+) ft: (\d+) corp: (\d+)', tail[0])
    if m:
        res.counters['fuzz_executions'] = int(m.group(1))
        res.counters['fuzz_coverage_counters'] = int(m.group(2))
        res.counters['fuzz_corpus_size'] = int(m.group(4))
    arts = sorted(glob.glob(os.path.join(work, 'artifacts', '*')))
    corp = sorted(glob.glob(os.path.join(work, 'corpus', '*')))
    rng.shuffle(corp)
    res.counters['fuzz_artifacts'] = len(arts)
    clock_name, epoch, tz = ctx.env_for_shard()
    drv = ctx.driver(epoch, tz, rw=True)
    todo = [(pth, True) for pth in arts[:3000]] + [(pth, False) for pth in corp[:6000]]
    for start in range(0, len(todo), 300):
        chunk = todo[start:start + 300]
        by_cfg = {}
        for pth, is_art in chunk:
            try:
                data = open(pth, 'rb').read()
            except OSError:
                continue
            if not data:
                continue
            sel = data[0]
            text = data[1:].decode('utf-8', 'replace')
            by_cfg.setdefault((sel >> 2) & 3, []).append((FUZZ_LANGS[sel & 3], text, is_art, os.path.basename(pth)))
        for ci, items in by_cfg.items():
            cfg = FUZZ_CFGS[ci]
            cops = gh.config_ops(cfg)
            rs = drv.run(cops + [{'op': 'execute', 'lang': lang, 'text': text} for lang, text, _, _ in items])[len(cops):]
            for (lang, text, is_art, name), r in zip(items, rs):
                res.cases += 1
                res.count('texts_from_libfuzzer_artifacts' if is_art else 'texts_from_libfuzzer_corpus')
                if text.strip():
                    res.distinct.add('fuzz', ci, lang, text)
                nslots = len(re.split(r'\r\n|\n', text))
                problems = judge(r, text, nslots, {}, False)
                if not problems:
                    res.count('texts_ok')
                    if is_art:
                        res.count('fuzz_artifacts_not_reproduced_by_the_driver')
                    continue
                for sig, what in problems:
                    res.count('outcome:' + sig.split('@')[0].split(':')[0])
                    res.violation(sig, what + ' (input found by libFuzzer: %s)' % name,
                                  {'config': cfg, 'lang': lang, 'text': text, 'clock': clock_name, 'epoch': epoch, 'tz': tz, 'via': 'libfuzzer',
                                   'ops': cops + [{'op': 'execute', 'lang': lang, 'text': text}]})
    shutil.rmtree(work, ignore_errors=True)


def run_shard(ctx):
    if ctx.thorough() and ctx.shard == ctx.nshards - 1 and ctx.nshards > 1 and not ctx.params.get('no_fuzz'):
        return fuzz_lens(ctx)
    rng = ctx.rng
    res = ctx.res
    clock_name, epoch, tz = ctx.env_for_shard()
    drv = ctx.driver(epoch, tz, rw=True)
    res.notes.append('shard %d: clock %s, TZ %s' % (ctx.shard, clock_name, tz))
    shrunk = 0
    batch_no = 0
    need_fresh = False
    while not ctx.out_of_time():
        batch_no += 1
        cfg = gh.hostile_config(rng)
        sane = (cfg['dec'], cfg['thou']) in SEP_CONFIGS
        cops = gh.config_ops(cfg)
        if need_fresh:
            # the previous batch registered a unit family and rules on the calculator: this one gets a new calculator
            cops = [{'op': 'new_calc', 'c': 0, 'seg': True}] + gh.config_ops(cfg, 0, seg=False)
            need_fresh = False
        ops = list(cops)
        meta = []
        use_session = rng.random() < 0.25
        reuse_session = use_session and rng.random() < 0.6      # one Session object for the whole batch (texts of varying line counts)
        if use_session:
            ops.append({'op': 'session_new', 's': 1})
        family = None
        if rng.random() < 0.2:
            # a calculator with a user-defined unit family (indices with gaps, arbitrary formulas) and custom rules: part of the
            # configuration space the API can reach; the texts of such a batch also use the family's words
            family = user_family_ops(rng)
            ops = [{'op': 'new_calc', 'c': 0, 'seg': True}] + gh.config_ops(cfg, 0, seg=False) + family
            cops = list(ops)
            if use_session:
                ops.append({'op': 'session_new', 's': 1})
            res.count('batches_with_user_family_and_rules')
            need_fresh = True
            sane = False              # a registered pattern such as '+' or '5' legitimately changes what '1 + 1' means: no sentinel values here
        nbatch = 150
        run_len, dirty = 0, False
        for _ in range(nbatch):
            lang = rng.choice(gh.HOSTILE_LANGS)
            if family is not None and rng.random() < 0.5:
                text = family_text(rng)
                nslots, sent = len(re.split(r'\r\n|\n', text)), {}
            else:
                text, nslots, sent = gh.hostile_text(rng)
            if use_session:
                # a re-used Session keeps its variables: it is replaced after six texts so that the number of bindings (and with it
                # the legitimate cost of a line) stays bounded, and sentinel values are only demanded while nothing was bound
                if not reuse_session or run_len >= 6:
                    ops.append({'op': 'session_new', 's': 1})
                    run_len, dirty = 0, False
                run_len += 1
                if dirty:
                    sent = {}
                if '=' in text:
                    dirty = True
                ops.append({'op': 'session_set_language', 's': 1, 'lang': lang})
                ops.append({'op': 'session_set_text', 's': 1, 'text': text})
                ops.append({'op': 'execute_session', 's': 1, 'text': text})
            else:
                ops.append({'op': 'execute', 'lang': lang, 'text': text})
            meta.append((len(ops) - 1, lang, text, nslots, sent))
        rs = drv.run(ops)
        for r in rs[:len(cops)]:
            if 'panic' in r:
                res.violation(panic_sig(r['panic']).replace('panic@', 'setter-panic@'), 'a configuration setter panicked: %r' % r['panic'],
                              {'config': cfg, 'ops': cops})
        for (idx, lang, text, nslots, sent) in meta:
            r = rs[idx]
            res.cases += 1
            res.note_rw(r)
            gen_class = 'session' if use_session else 'execute'
            res.count('texts_via_' + gen_class)
            res.count('lines_total', nslots)
            if lang not in ('en', 'tr'):
                res.count('texts_unknown_language')
            if text.strip():
                res.distinct.add(cfg['dec'], cfg['thou'], cfg['digits'], cfg['tz'], lang, text)
            problems = judge(r, text, nslots, sent, sane)
            if not problems:
                res.count('texts_ok')
                if sent and sane and '=' not in text:
                    res.count('sentinels_checked', len(sent))
                if 'lines' in r:
                    for slot in r['lines']:
                        if slot is None:
                            res.count('slots_empty')
                        elif 'err' in slot:
                            res.count('slots_error')
                        else:
                            res.count('slots_value')
                if len(res.samples) < 6 and len(text) < 160 and res.cases % 37 == 0:
                    res.sample({'config': cfg, 'lang': lang, 'text': text, 'slots': [None if s_ is None else (s_.get('out', s_.get('err'))) for s_ in r.get('lines', [])]})
                continue
            for sig, what in problems:
                res.count('outcome:' + sig.split('@')[0].split(':')[0])
                witness_text = text
                known_sigs = {v['sig'] for v in res.violations}
                if sig.replace(' ', '_') not in known_sigs and shrunk < 40 and not use_session:
                    shrunk += 1
                    try:
                        witness_text = isolate(drv, cops, lang, text, sig)
                    except Exception:
                        pass
                res.violation(sig, what, {'config': cfg, 'lang': lang, 'text': witness_text, 'clock': clock_name, 'epoch': epoch, 'tz': tz,
                                          'via': gen_class, 'ops': cops + [{'op': 'execute', 'lang': lang, 'text': witness_text}]})

"""C09 - dates are calendar dates, date arithmetic is calendar arithmetic. DESIGN.md 3.C09."""

import calendar
import datetime

from . import c10, lex, mon

SPEC = {
    'rule': ('dates of years 1..9999 (weighted to month ends, December, leap days, the virtual current year) in every configured spelling '
             '(d/m/y, "d Month [y]", "Month d[,] y"; long and short month names in lower/upper/title case; en and tr), impossible dates, '
             'D +- N days|weeks|months|years with N from {1,7,28..31,59..62,365,366 days; 1..5 weeks; 1..25 months; 1,4,100 years}, '
             '"A to B" in both orders, today/tomorrow/yesterday; several virtual dates. Oracle: Python datetime.date (proleptic Gregorian) '
             'and the virtual clock; printed form = the language\'s date format with its own month names. non-trivial = every case; '
             'distinct = distinct (language, virtual date, text)'),
    'min_nontrivial': 2000,
    'budget_s': {'quick': 35, 'thorough': 360},
    'assumptions': ['month/year arithmetic whose day of month does not exist in the target month is judged only for not crashing',
                    'the default zone is varied; it labels a date and must not move it'],
}

UNIT_CONST = {'day': 1, 'week': 2, 'month': 3, 'year': 4}
ZONES = sorted(lex.admissible_zones('en')) + ['GMT+5:30', 'GMT-11', 'GMT+13', 'GMT-3:30']


def recase(rng, w):
    r = rng.random()
    if r < 0.5:
        return w
    if r < 0.7:
        return w.upper()
    if r < 0.9:
        return w[0].upper() + w[1:]
    return ''.join(rng.choice([c.lower(), c.upper()]) for c in w)


def gen_date(rng, today):
    r = rng.random()
    if r < 0.25:
        y = today.year
    elif r < 0.6:
        y = rng.choice([2019, 2020, 2021, 2023, 2024, 2025, 1999, 2000, 1900, 2100])
    else:
        y = rng.randint(1, 9999)
    m = rng.choice([1, 2, 2, 3, 4, 6, 9, 11, 12, 12]) if rng.random() < 0.5 else rng.randint(1, 12)
    last = calendar.monthrange(y, m)[1]
    d = rng.choice([1, 28, last, last, last - 1, 15]) if rng.random() < 0.6 else rng.randint(1, last)
    return datetime.date(y, m, min(d, last))


def spell(rng, lang, d, today, force_year=False):
    """-> (text, has_year) one of the language's date spellings"""
    lm, sm = lex.months(lang)
    names = [n for n, k in lm.items() if k == d.month] + [n for n, k in sm.items() if k == d.month]
    name = recase(rng, rng.choice(names))
    forms = ['dmy', 'd_M_y', 'd_M'] if lang != 'en' else ['dmy', 'd_M_y', 'd_M', 'M_d_y', 'M_d,_y']
    f = rng.choice(forms)
    if f == 'd_M' and (d.year != today.year or force_year):
        f = 'd_M_y'
    if f == 'dmy':
        return '%d/%d/%d' % (d.day, d.month, d.year) if rng.random() < 0.5 else '%02d/%02d/%d' % (d.day, d.month, d.year), f
    if f == 'd_M_y':
        return '%d %s %d' % (d.day, name, d.year), f
    if f == 'd_M':
        return '%d %s' % (d.day, name), f
    if f == 'M_d_y':
        return '%s %d %d' % (name, d.day, d.year), f
    return '%s %d, %d' % (name, d.day, d.year), f


CUSTOM_DATE_FORMATS = ['{day_pad}/{month_pad}/{year}', '{year}-{month_pad}-{day_pad}', '{day}.{month}.{year}', '{month_long} {day_pad}, {year}', '{day} {month_short} {year} ({month_pad})']


def expected_print(lang, d, today, zone='UTC', fmts=None):
    """set of acceptable printed forms"""
    fmts = fmts or lex.date_formats(lang)
    fmt = fmts['current_year'] if d.year == today.year else fmts['full_date']
    long_, short = lex.print_months(lang)
    outs = set()
    for ln in long_[d.month] or {''}:
        for sn in short[d.month] or {''}:
            cap = lambda s: (s[0].upper() + s[1:]) if s else s
            outs.add(fmt.replace('{day_pad}', '%02d' % d.day).replace('{month_pad}', '%02d' % d.month).replace('{day}', str(d.day))
                     .replace('{month_long}', cap(ln)).replace('{month_short}', cap(sn)).replace('{month}', str(d.month))
                     .replace('{year}', str(d.year)).replace('{timezone}', zone))
    return outs


def add_months(d, n):
    k = d.year * 12 + (d.month - 1) + n
    y, m = divmod(k, 12)
    m += 1
    if not (1 <= y <= 9999):
        return None
    if d.day > calendar.monthrange(y, m)[1]:
        return 'missing-day'
    return datetime.date(y, m, d.day)


def ymd(d):
    return (d.year, d.month, d.day)


def parse_ymd(s):
    """chrono Display 'YYYY-MM-DD' / '+10000-01-01' -> (y, m, d) or None"""
    try:
        if s.startswith('-'):
            return None
        y, m, d = s.lstrip('+').split('-')
        return (int(y), int(m), int(d))
    except Exception:
        return None


def model_days_as_months(d, n_days, sign):
    """Defect model: a span of days is re-read as 365-day years and 30-day months, the calendar
    month/year is moved by those counts in one step (a month difference without year borrow),
    then the remaining days are added (what DateItem::calculate does).
    -> (y, m, d) | 'no-such-day' (the shifted month has no such day: the implementation declines) | None.
    The result may lie in year 10000 (30 Oct 9999 + 62 days) or in the year 0 (1 Feb 1 - 31 days): the Gregorian calendar repeats
    every 400 years, so the day arithmetic is done 400 years earlier / later."""
    years, rem = divmod(n_days, 365)
    months, days = divmod(rem, 30)
    try:
        y, m = d.year, d.month
        if years or months:
            if sign > 0:
                total = d.year * 12 + (d.month - 1) + years * 12 + months
                y, m = divmod(total, 12)
                m += 1
            else:
                y = d.year - years - months // 12
                m = d.month - months % 12
                if m <= 0:
                    m += 12
        shift = 400 if y > 9000 else (-400 if y < 400 else 0)          # ... or 400 years later when the result may lie before the year 1 (1 Feb 1 - 31 days)
        if years or months:
            if d.day > calendar.monthrange(y - shift, m)[1]:
                return 'no-such-day'
        cur = datetime.date(y - shift, m, d.day) + datetime.timedelta(days=sign * days)
        return (cur.year + shift, cur.month, cur.day)
    except Exception:
        return None


ENUM_OFFSETS = ([('day', n) for n in (1, 7, 28, 29, 30, 31, 59, 60, 61, 62, 365, 366)] + [('week', n) for n in (1, 2, 3, 4, 5)] +
                [('month', n) for n in range(1, 26)] + [('year', n) for n in (1, 4, 100)])


def enumerate_days(shard, nshards, stride):
    """every day of 2023-2024 x ENUM_OFFSETS x {+,-}; with stride > 1 (quick tier) every stride-th combination, rotating"""
    k = 0
    d0 = datetime.date(2023, 1, 1)
    for i in range(731):
        d = d0 + datetime.timedelta(days=i)
        for (unit, n) in ENUM_OFFSETS:
            for sign in (1, -1):
                k += 1
                if k % nshards != shard:
                    continue
                if stride > 1 and (k // nshards + i) % stride:
                    continue
                yield (d, unit, n, sign)


def op_spelling(rng, lang, sign):
    """'+' / '-' or one of the language's operator words for it, in lower, capitalised or (ASCII words) upper case"""
    sym = '+' if sign > 0 else '-'
    if rng.random() < 0.85:
        return sym
    ws = lex.operator_words(lang).get(sym)
    if not ws:
        return sym
    w = rng.choice(ws)
    r = rng.random()
    if r < 0.4:
        return w
    if r < 0.7:
        return w[0].upper() + w[1:]
    return w.upper() if (w.isascii() and 'i' not in w) else w


def run_shard(ctx):
    rng = ctx.rng
    res = ctx.res
    clock_name, epoch = ctx.clock_for_shard()
    today = mon.virtual_now(epoch).date()
    drv = ctx.driver(epoch, rw=True)
    langs = lex.languages()
    res.notes.append('shard %d: virtual date %s' % (ctx.shard, today))
    enum = enumerate_days(ctx.shard, ctx.nshards, 1)          # 65 790 combinations over the shards, in both tiers
    while not ctx.out_of_time():
        # the default zone labels a date but never moves it: the calendar day read, computed and printed is the same under every zone
        dz = rng.choice(['UTC', 'UTC', 'UTC', 'EST', 'PST', 'GMT-12', 'GMT-0:30', 'CET', 'NZDT', 'IST', 'GMT+14'])
        sepc = rng.choice([(',', '.'), (',', '.'), ('.', ','), ('.', ''), (',', '')])        # no date spelling depends on the number separators
        cfg = mon.cfg_with(tz=dz, dec=sepc[0], thou=sepc[1])
        res.cover('default zone', dz)
        items, meta = [], []
        for _ in range(150):
            lang = rng.choice(langs)
            words = lex.duration_words(lang)
            d = gen_date(rng, today)
            r = rng.random()
            e = next(enum, None) if rng.random() < 0.4 else None
            if e is not None:
                # systematic part: every day of 2023 and 2024 with every offset of the list (each shard takes its share)
                d, unit, n, sign = e
                if unit not in words:
                    continue
                text0, form = spell(rng, lang, d, today)
                text = '%s %s %d %s' % (text0, '+' if sign > 0 else '-', n, rng.choice(words[unit]))
                if unit == 'day':
                    want = d + datetime.timedelta(days=sign * n)
                elif unit == 'week':
                    want = d + datetime.timedelta(days=sign * 7 * n)
                else:
                    want = add_months(d, sign * n * (12 if unit == 'year' else 1))
                res.count('enumerated_day_x_offset_cases')
                res.cover('start date of the systematic part (days of 2023-2024)', str(d), 731)
                span_days = {'day': n, 'week': 7 * n}.get(unit)
                meta.append((lang, text, 'arith:%s:%s' % (unit, '+' if sign > 0 else '-'), ('date', want, d, span_days, sign, unit, n)))
                continue
            if r < 0.25:
                text, form = spell(rng, lang, d, today)
                meta.append((lang, text, 'literal:' + form, ('date', d)))
            elif r < 0.33:
                # impossible dates
                bad = rng.choice([(31, 4), (31, 6), (31, 9), (31, 11), (30, 2), (31, 2), (29, 2), (0, 5), (32, 1), (5, 13), (5, 0)])
                y = rng.choice([2021, 2023, 2019, 1900, 2100, today.year if not calendar.isleap(today.year) else 2021])
                dd, mm = bad
                if rng.random() < 0.5 or not (1 <= mm <= 12):
                    text = '%d/%d/%d' % (dd, mm, y)
                else:
                    lm, sm = lex.months(lang)
                    name = rng.choice([n for n, k in list(lm.items()) + list(sm.items()) if k == mm])
                    text = '%d %s %d' % (dd, name, y) if (lang != 'en' or rng.random() < 0.5) else '%s %d, %d' % (name, dd, y)
                meta.append((lang, text, 'impossible', ('not-date',)))
            elif r < 0.75:
                text, form = spell(rng, lang, d, today)
                unit = rng.choice(['day', 'day', 'week', 'month', 'month', 'year'])
                if unit == 'day':
                    n = rng.choice([1, 2, 7, 10, 28, 29, 30, 31, 59, 60, 61, 62, 100, 365, 366, 1000])
                elif unit == 'week':
                    n = rng.randint(1, 5)
                elif unit == 'month':
                    n = rng.randint(1, 25)
                else:
                    n = rng.choice([1, 1, 2, 4, 10, 100])
                if unit not in words:
                    continue
                w = rng.choice(words[unit])
                sign = rng.choice([1, -1])
                if unit == 'month' and rng.random() < 0.3:
                    # the span written in pieces that add up to at most twelve months (30 days each): side by side, or through a name
                    n = rng.randint(2, 12)
                    a_ = rng.randint(1, n - 1)
                    if rng.random() < 0.6:
                        text = '%s %s %d %s %d %s' % (text, op_spelling(rng, lang, sign), a_, w, n - a_, rng.choice(words[unit]))
                    elif n % 2 == 0:
                        text = 'zq = %d %s\n%s %s (zq + zq)' % (n // 2, w, text, '+' if sign > 0 else '-')
                    else:
                        text = 'zq = %d %s\nwv = %d %s\n%s %s (zq + wv)' % (a_, w, n - a_, rng.choice(words[unit]), text, '+' if sign > 0 else '-')
                else:
                    text = '%s %s %d %s' % (text, op_spelling(rng, lang, sign), n, w)
                try:
                    if unit == 'day':
                        want = d + datetime.timedelta(days=sign * n)
                    elif unit == 'week':
                        want = d + datetime.timedelta(days=sign * 7 * n)
                    elif unit == 'month':
                        want = add_months(d, sign * n)
                    else:
                        want = add_months(d, sign * 12 * n)
                except OverflowError:
                    want = None
                if want is None:
                    continue
                span_days = {'day': n, 'week': 7 * n}.get(unit)
                meta.append((lang, text, 'arith:%s:%s' % (unit, '+' if sign > 0 else '-'), ('date', want, d, span_days, sign, unit, n)))
            elif r < 0.755:
                # many spans behind one date (each needs its own rewrite): 2..45 terms of less than 30 days each
                if 'day' not in words or 'week' not in words:
                    continue
                text, form = spell(rng, lang, d, today, force_year=True)
                total = 0
                for _k in range(rng.choice([2, 10, 20, 31, 32, 33, 34, 40, 45])):
                    sg = rng.choice([1, 1, -1])
                    u_ = rng.choice(['day', 'day', 'week'])
                    n_ = rng.randint(1, 3) if u_ == 'week' else rng.randint(1, 20)
                    total += sg * n_ * (7 if u_ == 'week' else 1)
                    text += ' %s %d %s' % ('+' if sg > 0 else '-', n_, rng.choice(words[u_]))
                try:
                    want = d + datetime.timedelta(days=total)
                except OverflowError:
                    continue
                meta.append((lang, text, 'long-chain', ('date', want)))
            elif r < 0.80:
                # a negative span reaches the date: attached minus sign, a parenthesised difference, or a variable
                unit = rng.choice(['day', 'day', 'week'])
                if unit not in words:
                    continue
                k = rng.choice(['attached', 'paren', 'variable'])
                if k == 'attached' and d.year < 100:
                    continue         # '1 oct 20 -30 days': 'oct 20 -30' is itself a date spelling
                # ('30 april -2 weeks' would be 30 April of the year -2: a signed number after 'day Month' is the year)
                text0, form = spell(rng, lang, d, today, force_year=(k == 'attached'))
                w = rng.choice(words[unit])
                if k == 'attached':
                    n = rng.choice([1, 2, 3, 7, 10, 28, 29, 30, 31, 45, 61]) if unit == 'day' else rng.randint(1, 5)
                    text = '%s -%d %s' % (text0, n, w)
                    total, osign = n, -1
                else:
                    a, b = rng.randint(0, 40), rng.randint(1, 60)
                    if unit == 'week':
                        a, b = rng.randint(0, 3), rng.randint(1, 6)
                    if a >= b:
                        a, b = b - 1, a + 1
                    op = rng.choice('+-')
                    diff = '%d %s - %d %s' % (a, w, b, rng.choice(words[unit]))
                    if k == 'paren':
                        text = '%s %s (%s)' % (text0, op, diff)
                    else:
                        text = 'zq = %s\n%s %s zq' % (diff, text0, op)
                    total, osign = (b - a), (-1 if op == '+' else 1)
                mult = 7 if unit == 'week' else 1
                try:
                    want = d + datetime.timedelta(days=osign * total * mult)
                except OverflowError:
                    continue
                meta.append((lang, text, 'negspan:%s:%s' % (k, unit), ('date', want, d, total * mult, osign, unit, total)))
            elif r < 0.84 and lang == 'en':
                # 'A to B' where one date was moved to another zone (it is still that calendar day)
                d2 = gen_date(rng, today)
                t1, _ = spell(rng, lang, d, today, force_year=True)
                t2, _ = spell(rng, lang, d2, today, force_year=True)
                z = rng.choice(ZONES)
                if rng.random() < 0.5:
                    text = 'zq = %s to %s\nzq to %s' % (t1, z, t2)
                else:
                    text = 'zq = %s to %s\n%s to zq' % (t1, z, t2)
                meta.append((lang, text, 'to-zoned', ('duration', abs((d2 - d).days) * 86400)))
            elif r < 0.9:
                d2 = gen_date(rng, today)
                t1, _ = spell(rng, lang, d, today, force_year=(lang != 'en'))
                t2, _ = spell(rng, lang, d2, today, force_year=(lang != 'en'))
                if lang == 'en':
                    text = '%s to %s' % (t1, t2)
                elif lang == 'tr':
                    text = '%s %s arası' % (t1, t2)
                else:
                    continue
                meta.append((lang, text, 'to', ('duration', abs((d2 - d).days) * 86400)))
            else:
                dw = lex.day_words(lang)
                k = rng.choice(['today', 'tomorrow', 'yesterday', 'pair'])
                if k == 'pair':
                    a, b = rng.choice([('today', 'tomorrow'), ('tomorrow', 'today'), ('yesterday', 'today'), ('yesterday', 'tomorrow')])
                    wa, wb = rng.choice(dw[a]), rng.choice(dw[b])
                    text = '%s to %s' % (wa, wb) if lang == 'en' else '%s %s arası' % (wa, wb)
                    n = {('today', 'tomorrow'): 1, ('tomorrow', 'today'): 1, ('yesterday', 'today'): 1, ('yesterday', 'tomorrow'): 2}[(a, b)]
                    meta.append((lang, text, 'day-words', ('duration', n * 86400)))
                else:
                    off = {'today': 0, 'tomorrow': 1, 'yesterday': -1}[k]
                    meta.append((lang, rng.choice(dw[k]), 'day-words', ('date', today + datetime.timedelta(days=off))))
        items = [(m[0], m[1]) for m in meta]
        # one batch in ten on a calculator built from the configuration text with other date formats (every placeholder the formatter knows)
        custom = None
        if rng.random() < 0.1:
            f_ = rng.choice(CUSTOM_DATE_FORMATS)
            custom = {'full_date': f_, 'current_year': f_}
            res.count('batches_with_date_formats_of_an_edited_configuration_text')
        rs = mon.run_lines(drv, cfg, items, config_edits=None if custom is None else
                           [['/languages/%s/format/date/%s' % (l_, k_), v_] for l_ in langs for k_, v_ in custom.items()])
        for (lang, text, cls, exp), r in zip(meta, rs):
            slot = mon.last_slot(r) if '\n' in text else mon.slot0(r)
            res.cases += 1
            res.note_rw(r)
            res.count('class:' + cls.split(':')[0])
            res.count('lang:' + lang)
            res.distinct.add(lang, clock_name, text)
            k = mon.kind(slot)
            problem, sig = None, 'date:%s:%s' % (cls, lang)
            if exp[0] == 'not-date':
                if k == 'date':
                    problem = 'an impossible date was accepted: %s' % mon.describe(slot)
                elif k == 'abnormal':
                    problem = mon.describe(slot)
            elif exp[0] == 'duration':
                if k != 'duration' or slot['v']['secs'] != exp[1]:
                    problem = 'expected %d days, got %s' % (exp[1] // 86400, mon.describe(slot))
                elif slot['out'] != c10.expected_print(exp[1], lang):
                    problem = 'the distance of %d days prints %r, expected %r' % (exp[1] // 86400, slot['out'], c10.expected_print(exp[1], lang))
                    sig = 'date:to:print:%s' % lang
            else:
                want = exp[1]
                if want == 'missing-day':
                    # the day of the month cannot be kept: which answer to give instead is not stated (an error is what the
                    # implementation gives), but a *date* answer with another day of the month contradicts "keeps the day of the month"
                    res.count('missing_day_cases')
                    if k == 'abnormal':
                        problem = mon.describe(slot)
                        sig = 'date:missing-day-abnormal:%s' % cls.split(':')[1]
                    elif k == 'date' and len(exp) > 5 and exp[5] in ('month', 'year'):
                        g = parse_ymd(slot['v']['d'])
                        n_months = exp[6] * (12 if exp[5] == 'year' else 1)
                        borrow_lost = exp[4] < 0 and (exp[2].month - n_months % 12) <= 0        # the known finding moves the year, not the day
                        if g is not None and g[2] != exp[2].day and not borrow_lost:
                            problem = 'the day of the month is not kept: %s' % mon.describe(slot)
                            sig = 'date:missing-day-other-day:%s' % cls.split(':')[1]
                elif k != 'date':
                    problem = 'expected the date %s, got %s' % (want, mon.describe(slot))
                    if k == 'abnormal':
                        sig += ':abnormal'
                    elif k == 'err' and len(exp) > 3 and exp[3] is not None and exp[3] >= 30 and model_days_as_months(exp[2], exp[3], exp[4]) == 'no-such-day':
                        # same defect: the span was re-read as months, and the shifted month has no such day
                        sig = 'date:span-of-days-reread-as-months-and-years'
                    elif (k == 'err' and len(exp) > 3 and exp[5] in ('month', 'year') and exp[4] < 0
                          and (exp[2].month - (exp[6] * (12 if exp[5] == 'year' else 1)) % 12) <= 0 and add_months(want, 12) == 'missing-day'):
                        # same defect as the lost year borrow: the date one year late does not exist (29 Feb), the implementation declines
                        sig = 'date:month-subtraction-loses-year-borrow'
                else:
                    got = mon.parse_date(slot['v']['d'])
                    got_ymd = parse_ymd(slot['v']['d'])
                    if got != want:
                        problem = 'expected %s, got %s' % (want, slot['v']['d'])
                        if len(exp) > 3 and exp[3] is not None and exp[3] >= 30:
                            pred = model_days_as_months(exp[2], exp[3], exp[4])
                            if pred is not None and got_ymd == pred:
                                sig = 'date:span-of-days-reread-as-months-and-years'
                        if len(exp) > 3 and exp[5] in ('month', 'year') and exp[4] < 0:
                            # defect model: the year borrow of a month subtraction is lost
                            n_months = exp[6] * (12 if exp[5] == 'year' else 1)
                            if (exp[2].month - n_months % 12) <= 0 and got == add_months(want, 12):
                                sig = 'date:month-subtraction-loses-year-borrow'
                    else:
                        outs = expected_print(lang, want, today, dz, custom)
                        if slot['out'] not in outs:
                            problem = '%s prints %r, expected %s' % (want, slot['out'], sorted(outs))
                            sig = 'date:print:%s' % lang
            if problem is None:
                res.count('ok')
                if res.cases % 499 == 0:
                    res.sample({'lang': lang, 'virtual_today': str(today), 'text': text, 'observed': mon.describe(slot)})
                continue
            res.violation(sig, '%r (%s, today = %s): %s' % (text, lang, today, problem),
                          {'config': dict(cfg), 'lang': lang, 'text': text, 'epoch': epoch, 'clock': clock_name, 'observed': mon.describe(slot),
                           'ops': mon.gh.config_ops(cfg) + [{'op': 'execute', 'lang': lang, 'text': text}]})

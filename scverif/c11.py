"""C11 - clock times and zones. DESIGN.md 3.C11."""

from . import lex, mon

SPEC = {
    'rule': ('times of day in 24-hour and 1-11 am/pm spellings (with/without seconds, either case), alone, anchored in a zone ("T Z"), '
             'converted ("T [Z1] to Z2"), moved by a duration ("T +- D") and subtracted ("T1 to T2"), over the admissible zone names of '
             'config.json (zone syntax, not a currency code/alias, not another word) and GMT+-h[:mm] forms, under default zones set through '
             'set_timezone (UTC, EST, CET, IST, GMT+5:30, GMT-11, NZDT, and every admissible name in the thorough tier) and several process '
             'TZ values; set_timezone / get_time_offset results are checked against the table. Oracle: (wall - off1 + off2) mod 24 h. '
             'non-trivial = every case; distinct = distinct (default zone, text)'),
    'min_nontrivial': 2000,
    'budget_s': {'quick': 35, 'thorough': 400},
    'assumptions': ['12:xx am/pm is left out (pinned to 12:xx by the suite)', 'the calendar day of the instant is not judged, only the time of day',
                    '"T1 to T2" is judged for two times in the default zone'],
}

DEFAULT_ZONES = ['UTC', 'UTC', 'EST', 'CET', 'IST', 'GMT+5:30', 'GMT-11', 'NZDT']


def gmt_form(rng):
    h = rng.choice([0, 1, 2, 3, 5, 8, 9, 10, 11, 12, 13, 14])
    sign = rng.choice(['+', '-'])
    r = rng.random()
    if r < 0.5:
        return 'GMT%s%d' % (sign, h), (1 if sign == '+' else -1) * h * 60
    m = rng.choice([0, 30, 45, 15])
    if r < 0.85:
        return 'GMT%s%d:%02d' % (sign, h, m), (1 if sign == '+' else -1) * (h * 60 + m)
    return 'GMT%s%02d%02d' % (sign, h, m), (1 if sign == '+' else -1) * (h * 60 + m)


def gen_zone(rng, zones):
    if rng.random() < 0.8:
        name = rng.choice(zones)
        return name[0], name[1]
    return gmt_form(rng)


def gen_time(rng):
    """-> (text, wall seconds)"""
    r = rng.random()
    if r < 0.55:
        h, m = rng.randint(0, 23), rng.choice([0, 1, 15, 29, 30, 45, 59, rng.randint(0, 59)])
        if rng.random() < 0.3:
            s = rng.choice([0, 1, 30, 59, rng.randint(0, 59)])
            return '%d:%02d:%02d' % (h, m, s), h * 3600 + m * 60 + s
        hs = '%d' % h if rng.random() < 0.6 else '%02d' % h
        return '%s:%02d' % (hs, m), h * 3600 + m * 60
    h = rng.randint(1, 11)
    mer = rng.choice(['am', 'pm', 'AM', 'PM', 'Am', 'pM'])
    hh = h + (12 if mer.lower() == 'pm' else 0)
    sp = rng.choice(['', ' '])
    if rng.random() < 0.5:
        m = rng.choice([0, 5, 30, 59, rng.randint(0, 59)])
        return '%d:%02d%s%s' % (h, m, sp, mer), hh * 3600 + m * 60
    return '%d%s%s' % (h, sp, mer), hh * 3600


def tod(utc):
    t = utc.split(' ')[1].split('.')[0]
    h, m, s = t.split(':')
    return int(h) * 3600 + int(m) * 60 + int(s)


def hms(secs):
    secs %= 86400
    return '%02d:%02d:%02d' % (secs // 3600, (secs // 60) % 60, secs % 60)


def cover_zone(res, role, z, n_named):
    z = z.upper()
    if z.startswith('GMT') and len(z) > 3:
        res.cover('GMT+-h[:mm] form as %s zone' % role, z)
    else:
        res.cover('zone abbreviation of the table as %s zone' % role, z, n_named)


def gen_duration(rng):
    words = lex.duration_words('en')
    parts = []
    total = 0
    if rng.random() < 0.06:
        # a very long duration (beyond 2^31 and 2^32 seconds): the clock still moves by it modulo 24 hours
        u = rng.choice(['hour', 'minute', 'second', 'week', 'year'])
        c = rng.choice([1193047, 1193046, 596524, 71582789, 4294967297, 2147483649, 5000000000, 200, 137, 300, 7102]) if u != 'year' else rng.choice([69, 137, 200, 300])
        if u in ('week',):
            c = rng.choice([7102, 3551, 10000])
        return '%d %s' % (c, rng.choice(words[u])), c * lex.DUR_LEN[u]
    for _ in range(rng.choice([1, 1, 2, 3])):
        u = rng.choice(['hour', 'minute', 'second', 'hour', 'minute', 'day'])
        c = rng.choice([0, 1, 2, 5, 12, 23, 24, 25, 30, 59, 60, 61, 90, 1000])
        parts.append('%d %s' % (c, rng.choice(words[u])))
        total += c * lex.DUR_LEN[u]
    return ' '.join(parts), total


def run_shard(ctx):
    rng = ctx.rng
    res = ctx.res
    clock_name, epoch, tz = ctx.env_for_shard()
    drv = ctx.driver(epoch, tz, rw=True)
    zones = sorted(lex.admissible_zones('en').items())
    table = lex.zones()
    res.notes.append('shard %d: clock %s, process TZ %s, %d admissible zone names' % (ctx.shard, clock_name, tz, len(zones)))
    every_default = iter(zones[ctx.shard::ctx.nshards])      # every admissible zone name is the default zone of one batch
    while not ctx.out_of_time():
        nxt = next(every_default, None)
        if nxt is not None:
            dz, doff = nxt
            res.count('default_zone_from_table')
        else:
            dz = rng.choice(DEFAULT_ZONES)
            doff = table[dz] if dz in table else {'GMT+5:30': 330, 'GMT-11': -660}[dz]
        cfg = mon.cfg_with(tz=dz)
        cover_zone(res, 'default', dz, len(zones))
        # set_timezone / get_time_offset protocol, including a rejected name
        bad = rng.choice(['XYZ', 'Europe/Paris', '', 'utc+1', 'ABCDE', '12'])
        pre = [{'op': 'set_timezone', 'tz': bad}, {'op': 'get_time_offset'}]
        items, meta = [], []
        for _ in range(120):
            tt, W = gen_time(rng)
            r = rng.random()
            if r < 0.15:
                text, cls = tt, 'literal'
                want = (W, dz, doff)
            elif r < 0.32:
                z, off = gen_zone(rng, zones)
                zt = z if rng.random() < 0.8 else z.lower()
                text, cls = '%s %s' % (tt, zt), 'anchored'
                cover_zone(res, 'source', z, len(zones))
                want = (W, z.upper(), off)
            elif r < 0.6:
                z1, o1 = gen_zone(rng, zones)
                z2, o2 = gen_zone(rng, zones)
                conn = rng.choice(['to', 'to', 'as', 'in', 'into', 'TO'])
                if rng.random() < 0.3:
                    text, cls = '%s %s %s' % (tt, conn, z2), 'convert-from-default'
                    cover_zone(res, 'target', z2, len(zones))
                    want = (W - doff * 60 + o2 * 60, z2.upper(), o2)
                else:
                    text, cls = '%s %s %s %s' % (tt, z1, conn, z2), 'convert'
                    cover_zone(res, 'source', z1, len(zones))
                    cover_zone(res, 'target', z2, len(zones))
                    res.cover('ordered pair of zone offsets converted (minutes)', '%d>%d' % (o1, o2))
                    want = (W - o1 * 60 + o2 * 60, z2.upper(), o2)
            elif r < 0.85:
                dt, D = gen_duration(rng)
                op = rng.choice('+-')
                if rng.random() < 0.3:
                    z1, o1 = gen_zone(rng, zones)
                    text, cls = '%s %s %s %s' % (tt, z1, op, dt), 'shift-zoned'
                    want = (W + D if op == '+' else W - D, z1.upper(), o1)
                else:
                    text, cls = '%s %s %s' % (tt, op, dt), 'shift'
                    want = (W + D if op == '+' else W - D, dz, doff)
            else:
                t2, W2 = gen_time(rng)
                text, cls = '%s to %s' % (tt, t2), 'difference'
                want = ('duration', abs(W2 - W))
            if cls != 'literal' and rng.random() < 0.12:
                # words in front of the time, or a name it is bound to, with letters whose upper / lower case has another byte length
                # (dotless i shrinks, sharp s grows): what the line denotes stays the same
                lead = rng.choice(['çıkış', 'kısıtlı', 'ığdır ılık', 'straße', 'ŉ ǰ', 'İstanbul ıı'])
                text = ('%s = %s' % (lead, text)) if rng.random() < 0.5 else ('%s %s' % (lead, text))
                cls += ':after-multibyte-words'
            items.append(('en', text))
            meta.append((text, cls, want))
        cops = mon.gh.config_ops(cfg) + pre
        ops = cops + [{'op': 'execute', 'lang': 'en', 'text': t} for _, t in items]
        rs = drv.run(ops)
        # protocol checks
        r_set, r_bad, r_get = rs[5], rs[6], rs[7]
        res.cases += 1
        res.count('class:set_timezone')
        if r_set.get('ok') is not True:
            res.violation('zone:set-rejected', 'set_timezone(%r) was rejected: %r' % (dz, r_set), {'ops': cops})
        elif r_bad.get('ok') is not False:
            res.violation('zone:unknown-accepted', 'set_timezone(%r) was accepted: %r' % (bad, r_bad), {'ops': cops})
        elif r_get.get('name') != dz.upper() or r_get.get('offset') != doff:
            res.violation('zone:get-offset', 'after set_timezone(%r) and a rejected set_timezone(%r): get_time_offset = %r, expected (%s, %d)' % (dz, bad, r_get, dz, doff), {'ops': cops})
        else:
            res.count('ok')
        for (text, cls, want), r in zip(meta, rs[len(cops):]):
            slot = mon.slot0(r)
            res.cases += 1
            res.note_rw(r)
            res.count('class:' + cls)
            res.distinct.add(dz, text)
            k = mon.kind(slot)
            problem = None
            if want[0] == 'duration':
                if k != 'duration' or slot['v']['secs'] != want[1]:
                    problem = 'expected a duration of %d s, got %s' % (want[1], mon.describe(slot))
            else:
                W, z, off = want
                W %= 86400
                if k != 'time':
                    problem = 'expected %s %s, got %s' % (hms(W), z, mon.describe(slot))
                else:
                    v = slot['v']
                    wall = (tod(v['utc']) + v['off'] * 60) % 86400
                    exp_out = '%s %s' % (hms(W), z)
                    if v['off'] != off or v['zone'] != z:
                        problem = 'expected zone %s (%+d min), got %s (%+d min): %r' % (z, off, v['zone'], v['off'], slot['out'])
                    elif wall != W:
                        problem = 'expected wall time %s, value holds %s (%r)' % (hms(W), hms(wall), slot['out'])
                    elif slot['out'] != exp_out:
                        problem = 'prints %r, expected %r' % (slot['out'], exp_out)
            if problem is None:
                res.count('ok')
                if res.cases % 499 == 0:
                    res.sample({'default_zone': dz, 'process_TZ': tz, 'text': text, 'observed': mon.describe(slot)})
                continue
            res.violation('time:%s%s' % (cls, ':abnormal' if k == 'abnormal' else ''), '%r (default zone %s, process TZ %s, clock %s): %s' % (text, dz, tz, clock_name, problem),
                          {'config': cfg, 'lang': 'en', 'text': text, 'epoch': epoch, 'tz': tz, 'observed': mon.describe(slot),
                           'ops': mon.gh.config_ops(cfg) + [{'op': 'execute', 'lang': 'en', 'text': text}]})

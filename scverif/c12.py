"""C12 - unit conversion matches the unit definitions. DESIGN.md 3.C12."""

import json
import os
from fractions import Fraction

from . import lex, mon
from .numfmt import SEP_CONFIGS, render_literal

SPEC = {
    'rule': ('every ordered pair of the configured units within a kind (332) x source spellings x amounts, under the 4 separator '
             'conventions; every ordered pair across kinds (must not convert); round trips and two-step conversions through variables; '
             'Q1 +- Q2, Q*n, Q/n, Q1/Q2, also with one unit on both sides in two of its spellings; every third batch on a calculator built by load_from_json from the stock configuration with the two imperial/metric bridges anchored at other units in either direction (same unit definitions). Oracle: standard unit definitions as exact fractions (not config.json), relative tolerance 1e-9. '
             'non-trivial = every case; distinct = distinct (separators, text)'),
    'min_nontrivial': 1500,
    'budget_s': {'quick': 40, 'thorough': 400},
    'assumptions': ['relative tolerance 1e-9 (the conversion chain divides step by step in doubles)',
                    'scaling is judged with the quantity on the left (Q * n, Q / n)'],
}

AMOUNTS = ['1', '2.5', '1000', '0.001', '12345.678', '0', '3', '7.25', '1000000', '0.5']


def units_by_key():
    out = {}
    for it in lex.unit_table():
        key = lex.unit_key(it)
        if key in lex.UNIT_DEF:
            kind, size = lex.UNIT_DEF[key]
            out[key] = dict(it, key=key, kind=kind, size=size)
    return out


def ident(units, v):
    """unit key of an observed unit value"""
    for u in units.values():
        if u['group'] == v.get('group') and u['index'] == v.get('index'):
            return u['key']
    return None


def near(obs, want, rel=1e-9):
    wf = float(want)
    if obs == wf:
        return True
    return abs(obs - wf) <= rel * max(abs(wf), 1e-300)


BRIDGES = [('imperial-unit-length', 'metric-length'), ('imperial-unit-weight', 'metric-weight')]


def re_anchored_bridges(rng, units):
    """-> ops that build calculator 3 from the stock configuration text with re-anchored bridges"""
    from . import core
    stock = json.load(open(os.path.join(core.REPO, 'src/json/config.json')))
    edits = []
    for k, entry in enumerate(stock['type_conversion']):
        names = (entry['source']['name'], entry['target']['name'])
        if names not in BRIDGES:
            return []
        ua = rng.choice([u for u in units.values() if u['group'] == names[0]])
        ub = rng.choice([u for u in units.values() if u['group'] == names[1]])
        if rng.random() < 0.5:
            ua, ub = ub, ua          # the bridge written in the other direction
        f = Fraction(ua['size']) / Fraction(ub['size'])        # one anchor unit of the source table in anchor units of the target table
        edits += [['/type_conversion/%d/source/name' % k, ua['group']], ['/type_conversion/%d/source/index' % k, ua['index']],
                  ['/type_conversion/%d/target/name' % k, ub['group']], ['/type_conversion/%d/target/index' % k, ub['index']],
                  ['/type_conversion/%d/to_source_calculation' % k, '{value} * %d / %d' % (f.numerator, f.denominator)],
                  ['/type_conversion/%d/to_target_calculation' % k, '{value} * %d / %d' % (f.denominator, f.numerator)]]
    return [{'op': 'new_calc_json', 'c': 3, 'seg': True, 'path': os.path.join(core.REPO, 'src/json/config.json'), 'set': edits}]


def run_shard(ctx):
    rng = ctx.rng
    res = ctx.res
    drv = ctx.driver()
    units = units_by_key()
    keys = sorted(units)
    same = [(a, b) for a in keys for b in keys if a != b and units[a]['kind'] == units[b]['kind']]
    cross = [(a, b) for a in keys for b in keys if units[a]['kind'] != units[b]['kind']]
    res.count('configured_units_with_definition', 0)
    res.counters['configured_units_with_definition'] = len(keys)
    res.counters['in_kind_ordered_pairs'] = len(same)
    pair_iter = iter(same[ctx.shard::ctx.nshards] * (50 if ctx.thorough() else 3))
    cross_iter = iter(cross[ctx.shard::ctx.nshards])
    while not ctx.out_of_time():
        batch = []   # (class, [(sep, text)], judge data)
        # every third batch runs on a calculator built (SmartCalc::load_from_json) from the stock configuration with the two bridges between
        # the imperial and the metric tables anchored at other units, in either direction: every unit keeps its definition
        bridge_ops = re_anchored_bridges(rng, units) if rng.random() < 0.34 else []
        res.count('batches:re-anchored-bridges' if bridge_ops else 'batches:stock-configuration')
        for _ in range(40):
            r = rng.random()
            if r < 0.45:
                p = next(pair_iter, None) or rng.choice(same)
                batch.append(('conv', p, rng.choice(AMOUNTS)))
            elif r < 0.6:
                p = next(cross_iter, None) or rng.choice(cross)
                batch.append(('cross', p, rng.choice(AMOUNTS[:5])))
            elif r < 0.64:
                # the amount comes from a name (no number is written on the line of the quantity)
                batch.append(('conv-amount-from-variable', rng.choice(same), rng.choice(['1', '2.5', '1000', '3', '48'])))
            elif r < 0.72:
                batch.append(('roundtrip', rng.choice(same), rng.choice(['1', '2.5', '1000', '12345.678', '3'])))
            elif r < 0.8:
                a, b = rng.choice(same)
                cands = [c for c in keys if units[c]['kind'] == units[a]['kind'] and c not in (a, b)]
                batch.append(('twostep', (a, b, rng.choice(cands)), rng.choice(['1', '2.5', '1000', '3'])))
            else:
                p = rng.choice(same)
                if rng.random() < 0.2:
                    p = (p[0], p[0])          # one unit on both sides, in two of its spellings where it has two
                batch.append((rng.choice(['add', 'sub', 'mul', 'div', 'ratio']), p, (rng.choice(AMOUNTS[:5] + ['3']), rng.choice(['2', '4', '0.5', '10', '3', '0', '1']))))
        # every case is evaluated under all four separator conventions
        per_sep = {}
        texts = {}
        for sep in SEP_CONFIGS:
            items = []
            for bi, (cls, p, amt) in enumerate(batch):
                lit = lambda s: render_literal(s, sep, rng.random() < 0.2)
                conn = rng.choice(['to', 'to', 'as', 'into', 'in'])
                if cls in ('conv', 'cross'):
                    a, b = p
                    text = '%s %s %s %s' % (lit(amt), rng.choice(units[a]['spellings']), conn, rng.choice(units[b]['names']))
                elif cls == 'conv-amount-from-variable':
                    a, b = p
                    text = 'wv = %s\nwv %s %s %s' % (lit(amt), rng.choice(units[a]['spellings']), conn, rng.choice(units[b]['names']))
                elif cls == 'roundtrip':
                    a, b = p
                    text = 'zq = %s %s to %s\nzq to %s' % (lit(amt), rng.choice(units[a]['spellings']), units[b]['names'][0], units[a]['names'][0])
                elif cls == 'twostep':
                    a, b, c = p
                    text = 'zq = %s %s to %s\nzq to %s' % (lit(amt), rng.choice(units[a]['spellings']), units[b]['names'][0], units[c]['names'][0])
                else:
                    a, b = p
                    x, y = amt
                    if a == b:
                        sa = rng.choice(units[a]['spellings'])
                        sb = rng.choice([w for w in units[a]['spellings'] if w != sa] or [sa])
                        text = {'add': '%s %s + %s %s', 'sub': '%s %s - %s %s', 'mul': '%s %s * %s', 'div': '%s %s / %s', 'ratio': '%s %s / %s %s'}[cls] % \
                            ((lit(x), sa, lit(y), sb) if cls in ('add', 'sub', 'ratio') else (lit(x), sa, lit(y)))
                    elif cls == 'add':
                        text = '%s %s + %s %s' % (lit(x), rng.choice(units[a]['spellings']), lit(y), rng.choice(units[b]['spellings']))
                    elif cls == 'sub':
                        text = '%s %s - %s %s' % (lit(x), rng.choice(units[a]['spellings']), lit(y), rng.choice(units[b]['spellings']))
                    elif cls == 'mul':
                        text = '%s %s * %s' % (lit(x), rng.choice(units[a]['spellings']), lit(y))
                    elif cls == 'div':
                        text = '%s %s / %s' % (lit(x), rng.choice(units[a]['spellings']), lit(y))
                    else:
                        text = '%s %s / %s %s' % (lit(x), rng.choice(units[a]['spellings']), lit(y), rng.choice(units[b]['spellings']))
                items.append(('en', text))
                texts[(sep, bi)] = text
            cfg = mon.cfg_with(dec=sep[0], thou=sep[1])
            if bridge_ops:
                cops = bridge_ops + mon.gh.config_ops(cfg, c=3)
                per_sep[sep] = drv.run(cops + [{'op': 'execute', 'c': 3, 'lang': l_, 'text': t_} for l_, t_ in items])[len(cops):]
            else:
                per_sep[sep] = mon.run_lines(drv, cfg, items, dates=False)
        for bi, (cls, p, amt) in enumerate(batch):
            verdicts = {}
            for sep in SEP_CONFIGS:
                r = per_sep[sep][bi]
                slot = mon.last_slot(r)
                text = texts[(sep, bi)]
                res.cases += 1
                res.count('class:' + cls)
                res.distinct.add(sep, text)
                verdicts[sep] = judge(units, cls, p, amt, slot)
            if cls in ('conv', 'conv-amount-from-variable'):
                res.cover('ordered in-kind unit pair converted', '%s>%s' % (p[0], p[1]), len(same))
            elif cls == 'cross':
                res.cover('ordered cross-kind unit pair tried', '%s>%s' % (p[0], p[1]), len(cross))
            elif cls in ('roundtrip', 'twostep'):
                res.cover('ordered in-kind unit pair in round trips / two-step conversions', '%s>%s' % (p[0], p[1]), len(same))
            else:
                res.cover('ordered in-kind unit pair in arithmetic', '%s>%s' % (p[0], p[1]), len(same))
            bad = {s_: v for s_, v in verdicts.items() if v}
            if not bad:
                res.count('ok', len(SEP_CONFIGS))
                if res.cases % 401 == 0:
                    sep = SEP_CONFIGS[0]
                    res.sample({'separators': sep, 'text': texts[(sep, bi)], 'observed': mon.describe(mon.last_slot(per_sep[sep][bi]))})
                continue
            res.count('ok', len(SEP_CONFIGS) - len(bad))
            sepdep = len(bad) < len(SEP_CONFIGS)
            a, b = p[0], p[1]
            ga, gb = units[a]['group'], units[b]['group']
            if cls == 'cross':
                sig = 'unit:cross-kind:%s>%s' % (units[a]['kind'], units[b]['kind'])
            else:
                direction = 'same' if ga != gb else ('up' if units[a]['index'] < units[b]['index'] else 'down')
                sig = 'unit:%s:%s>%s:%s' % (cls, ga, gb, direction)
            if sepdep:
                sig += ':sep-dependent'
            if a == b:
                sig += ':one-unit-two-spellings'
            if bridge_ops:
                sig += ':re-anchored-bridges'
            sep = sorted(bad)[0]
            cfg = mon.cfg_with(dec=sep[0], thou=sep[1])
            text = texts[(sep, bi)]
            res.violation(sig, '%r under separators %r: %s%s' % (text, sep, bad[sep], ' (holds under %r)' % ([s_ for s_ in SEP_CONFIGS if s_ not in bad],) if sepdep else ''),
                          {'config': cfg, 'lang': 'en', 'text': text, 'failing_separators': sorted(bad),
                           'ops': (bridge_ops + mon.gh.config_ops(cfg, c=3) + [{'op': 'execute', 'c': 3, 'lang': 'en', 'text': text}]) if bridge_ops else
                                  (mon.gh.config_ops(cfg) + [{'op': 'execute', 'lang': 'en', 'text': text}])})
            res.count('violating_cases', len(bad) - 1)


def judge(units, cls, p, amt, slot):
    """-> None or a description of the disagreement"""
    k = mon.kind(slot)
    if cls == 'cross':
        a, b = p
        if k == 'unit':
            got = ident(units, slot['v'])
            if got is None or units[got]['kind'] != units[a]['kind']:
                return 'a %s was converted into a %s: %s' % (units[a]['kind'], units[b]['kind'], mon.describe(slot))
        if k == 'abnormal':
            return mon.describe(slot)
        return None
    if cls == 'ratio':
        a, b = p
        x, y = Fraction(amt[0]), Fraction(amt[1])
        want = (x * units[a]['size']) / (y * units[b]['size']) if y else Fraction(0)
        if k != 'number':
            return 'expected a plain number %r, got %s' % (float(want), mon.describe(slot))
        if not near(mon.fval(slot), want):
            return 'ratio %r, expected %r' % (mon.fval(slot), float(want))
        return None
    a, b = p[0], p[1]
    if cls in ('conv', 'conv-amount-from-variable'):
        want = Fraction(amt) * units[a]['size'] / units[b]['size']
        tgt = b
    elif cls == 'roundtrip':
        want = Fraction(amt)
        tgt = a
    elif cls == 'twostep':
        c = p[2]
        want = Fraction(amt) * units[a]['size'] / units[c]['size']
        tgt = c
    else:
        x, y = Fraction(amt[0]), Fraction(amt[1])
        tgt = a
        if cls == 'add':
            want = x + y * units[b]['size'] / units[a]['size']
        elif cls == 'sub':
            want = x - y * units[b]['size'] / units[a]['size']
        elif cls == 'mul':
            want = x * y
        else:
            if y == 0:
                return None          # a quantity divided by 0 is not part of the statement
            want = x / y
    if k != 'unit':
        return 'expected %r %s, got %s' % (float(want), tgt, mon.describe(slot))
    got_unit = ident(units, slot['v'])
    if got_unit != tgt:
        return 'expected a quantity in %s, got %s' % (tgt, mon.describe(slot))
    got = mon.fval(slot)
    scale_ok = near(got, want)
    if cls == 'sub' and not scale_ok:
        # cancellation: tolerance relative to the operands
        x, y = Fraction(amt[0]), Fraction(amt[1])
        mag = abs(x) + abs(y * units[b]['size'] / units[a]['size'])
        scale_ok = abs(got - float(want)) <= 1e-9 * float(mag)
    if not scale_ok:
        return 'expected %r %s, got %r (ratio %.6g)' % (float(want), tgt, got, (got / float(want)) if want else float('nan'))
    return None

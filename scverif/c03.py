"""C03 - a text is a straight-line program. DESIGN.md 3.C03."""

import re

from . import gen_expr as ge
from . import lex, mon
from .core import bits2f
from .numfmt import DEFAULT_SEP

SPEC = {
    'rule': ('straight-line programs of 3-40 lines over a pool of 13 one- to three-word names with prefix relations (zq / zq total / zq total '
             'cost), Turkish letters and mixed case at use sites: numeric assignments (expression trees over literals and earlier '
             'variables, incl. self-reference, negated and juxtaposed uses), typed bindings (percent, money, duration, date, time, unit), '
             'copies, re-bindings of a copied source, failing lines (parse failures and evaluation failures on bound names), blank and '
             'comment lines; each program run through one execute and, in chunks, through one re-used Session. Oracle: an executable '
             'environment model; numeric lines bit-exact (C02 model), typed values by read-back equality; every binding holds a unique '
             'value. non-trivial = a line that reads at least one variable; distinct = distinct (program text, line)'),
    'min_nontrivial': 2000,
    'budget_s': {'quick': 40, 'thorough': 400},
    'assumptions': ['whether a malformed line fails is observed, not assumed: if it yields a value the model binds that value',
                    'names are screened against every word of the lexicon of en and tr'],
}

NAME_POOL = ['zq', 'zq total', 'zq total cost', 'wv', 'wv rate', 'mk', 'çay', 'günlük ücret', 'şeker fiyat', 'qux', 'qux plan', 'öğle', 'rent xx',
             'may budget', 'budget xx march', 'kira ocak',
             # words that end with an operator word of a language (times, sum, kere), a name with the alias word 'euro', and a name
             # with a character that is an operator
             'sometimes', 'checksum', 'tekere', 'overtimes xx']
ALLOWED_LEXICON_WORDS = set()
# names may contain a month word (a name is several *words*); every other word of the lexicon stays excluded
MONTH_WORDS = set()
for _l in lex.languages():
    for _t in lex.months(_l):
        MONTH_WORDS |= set(_t)

TYPED = [
    ('percent', ['15%', '7,5%', '%12', '120%']),
    ('money', ['$20', '35 usd', '12,5 eur', '1k try', '99 dkk']),
    ('duration', ['3 hours', '45 minutes', '2 days 4 hours', '1 week', '90 seconds']),
    ('date', ['5 march 2020', '12/02/2021', 'january 28, 2019', '31 december 1999']),
    ('time', ['10:30', '17:45:10', '3 pm', '11:05 am']),
    ('unit', ['5 km', '12,5 kg', '3 mile', '64 kb', '7 inch']),
]
PARSE_FAIL = ['1 +', '(', ')', '2 * (3', '* ', '1 + * 2', '((1)', '/ 4', '1 -', '3 * ( 4 +']
EVAL_FAIL = ['1 / $3', '10:30 * 2', '5 km + 3 kg', '3 hours * 2 hours', '2 * 5 km']


def key(name):
    return ''.join(name.lower().split())


def recase(rng, name):
    r = rng.random()
    if r < 0.55:
        return name
    if r < 0.75:
        return name.upper()
    if r < 0.9:
        return name.title()
    return ''.join(rng.choice([c.lower(), c.upper()]) for c in name)


def screened_names():
    words = set()
    for lang in lex.languages():
        words |= lex.all_words(lang)
    out = []
    for n in NAME_POOL:
        if all((w.lower() not in words or w.lower() in MONTH_WORDS or w.lower() in ALLOWED_LEXICON_WORDS) and len(w) >= 2 for w in n.split()):
            out.append(n)
    return out


class Program:
    """Generated lines with their specs; the model is run afterwards against the observed slots."""

    def __init__(self, rng, names):
        self.rng = rng
        self.names = names
        self.kinds = {}      # key -> 'num' | typed kind (static expectation while generating)
        self.lines = []      # (text, spec)
        self.uid = 0

    def fresh_number(self):
        self.uid += 1
        return '%d' % (1000 + 37 * self.uid) if self.rng.random() < 0.6 else '%d.%d' % (100 + self.uid, self.rng.randint(1, 99))

    def bound(self, kind=None):
        return [n for n in self.names if key(n) in self.kinds and (kind is None or self.kinds[key(n)] == kind)]

    def gen_numeric_tree(self, depth):
        rng = self.rng
        nums = self.bound('num')

        def leaf(r):
            n = r.choice(nums)
            return ('val', None, recase(r, n), key(n))
        opts = {'suffix': False, 'deep_paren': False, 'juxt_groups': False, 'leaf': leaf if nums else None, 'leaf_p': 0.6}
        tree = ge.gen_tree(rng, depth, opts)
        return tree

    def gen_line(self):
        rng = self.rng
        r = rng.random()
        nums = self.bound('num')
        allb = self.bound()
        if r < 0.03:
            self.lines.append((rng.choice(['', '   ', '# a note', '# zq = 5', '  # 1 + 1']), ('blank',)))
        elif r < 0.45 or not allb:
            name = rng.choice(self.names)
            if rng.random() < 0.5 or not nums:
                tree = ('lit', self.fresh_number(), '')
                if rng.random() < 0.4 and nums:
                    tree = ('bin', rng.choice('+-*'), self.gen_numeric_tree(1), tree)
                    tree = ge.fix_parens(tree)
            else:
                tree = self.gen_numeric_tree(rng.randint(1, 3))
                if rng.random() < 0.25 and key(name) in self.kinds and self.kinds[key(name)] == 'num':
                    # self-reference
                    tree = ge.fix_parens(('bin', rng.choice('+*-'), ('val', None, recase(rng, name), key(name)), tree))
            text = '%s%s%s' % (recase(rng, name), rng.choice([' = ', '=', ' =', '= ']), self.render(tree))
            self.lines.append((text, ('assign-num', key(name), tree)))
            self.kinds[key(name)] = 'num'
        elif r < 0.55:
            name = rng.choice(self.names)
            kind, pool = rng.choice(TYPED)
            text = '%s = %s' % (recase(rng, name), rng.choice(pool))
            self.lines.append((text, ('assign-typed', key(name), kind)))
            self.kinds[key(name)] = kind
        elif r < 0.65:
            src = rng.choice(allb)
            dst = rng.choice(self.names)
            if key(dst) == key(src):
                return
            # a copy is only unambiguous when the source text cannot be read as a longer name
            text = '%s = %s' % (recase(rng, dst), recase(rng, src))
            self.lines.append((text, ('copy', key(dst), key(src))))
            self.kinds[key(dst)] = self.kinds[key(src)]
        elif r < 0.85:
            if nums and rng.random() < 0.7:
                tree = self.gen_numeric_tree(rng.randint(0, 3))
                if not any(t[0] == 'var' for t in ge.lex_tokens(tree, DEFAULT_SEP)):
                    n = rng.choice(nums)
                    tree = ('val', None, recase(rng, n), key(n))
                self.lines.append((self.render(tree), ('use-num', tree)))
            else:
                n = rng.choice(allb)
                self.lines.append((recase(rng, n), ('use', key(n))))
        elif r < 0.93:
            # failing lines: parse failures on any name, evaluation failures on bound names only
            if rng.random() < 0.6:
                name = rng.choice(self.names)
                text = '%s = %s' % (recase(rng, name), rng.choice(PARSE_FAIL))
            else:
                name = rng.choice(allb)
                text = '%s = %s' % (recase(rng, name), rng.choice(EVAL_FAIL))
            self.lines.append((text, ('fail', key(name))))
        else:
            # longest-name precedence
            fam = [n for n in ('zq', 'zq total', 'zq total cost') if key(n) in self.kinds and self.kinds[key(n)] == 'num' and n in self.names]
            if len(fam) == 3:
                form = rng.randrange(4)
                if form == 0:
                    self.lines.append((recase(rng, 'zq total cost'), ('use', key('zq total cost'))))
                elif form == 1:
                    t = ge.fix_parens(('bin', '+', ('val', None, recase(rng, 'zq total'), key('zq total')), ('val', None, recase(rng, 'zq'), key('zq'))))
                    self.lines.append((self.render(t), ('use-num', t)))
                elif form == 2:
                    t = ge.fix_parens(('bin', '*', ('val', None, recase(rng, 'zq total cost'), key('zq total cost')), ('val', None, 'zq', key('zq'))))
                    self.lines.append((self.render(t), ('use-num', t)))
                else:
                    t = ge.fix_parens(('bin', '-', ('lit', '1', ''), ('val', None, recase(rng, 'zq total'), key('zq total'))))
                    self.lines.append((self.render(t), ('use-num', t)))

    def render(self, tree):
        toks = ge.lex_tokens(tree, DEFAULT_SEP)
        return ge.join(toks, self.rng.choice(['single', 'single', 'random', 'none']), self.rng)

    def ambiguous(self):
        """A use-site text that could also be read as a longer bound name makes the expectation
        depend on the matching order; such programs are not generated (checked on the final text)."""
        return False


def bind_values(tree, env):
    """Replace ('val', None, text, key) leaves by their model value. -> tree or None if a variable is not numeric"""
    k = tree[0]
    if k == 'val':
        v = env.get(tree[3])
        if v is None or v[0] != 'num':
            return None
        return ('val', v[1], tree[2])
    if k in ('lit', 'slit'):
        return tree
    if k == 'sign':
        inner = bind_values(tree[2], env)
        return None if inner is None else ('sign', tree[1], inner)
    if k == 'paren':
        inner = bind_values(tree[1], env)
        return None if inner is None else ('paren', inner)
    if k == 'juxt':
        items = [bind_values(c, env) for c in tree[1]]
        return None if any(i is None for i in items) else ('juxt', items)
    l, r = bind_values(tree[2], env), bind_values(tree[3], env)
    return None if (l is None or r is None) else ('bin', tree[1], l, r)


def value_of_slot(slot):
    """typed value for read-back comparison"""
    if slot is None or 'v' not in slot:
        return None
    v = dict(slot['v'])
    v.pop('names', None)
    return v


def same_value(a, b):
    return a == b


def judge_program(lines, slots, res, sig_prefix):
    """Run the environment model over the observed slots. -> list of (line index, sig, what)"""
    env = {}
    out = []
    for i, ((text, spec), slot) in enumerate(zip(lines, slots)):
        kind = spec[0]
        k = mon.kind(slot)
        if kind == 'blank':
            if slot is not None:
                out.append((i, 'blank-line', 'blank/comment line %r gave %s' % (text, mon.describe(slot))))
            continue
        if kind == 'assign-num' or kind == 'use-num':
            tree = spec[2] if kind == 'assign-num' else spec[1]
            bound = bind_values(tree, env)
            want = None
            if bound is not None:
                try:
                    want = ge.evaluate(bound)
                except ge.Overflow:
                    want = None
            toks = ge.lex_tokens(tree, DEFAULT_SEP)
            if want is None or ge.date_like(toks, DEFAULT_SEP):
                # not judged; an assignment still binds what was observed
                res.count('lines_not_judged')
                if kind == 'assign-num':
                    if k in ('err', 'abnormal', 'empty', 'none'):
                        pass          # (an expression without a value leaves the binding as it is)
                    else:
                        ov = value_of_slot(slot)
                        env[spec[1]] = ('num', bits2f(ov['bits'])) if ov.get('k') == 'number' else ('typed', ov)
                continue
            reads = any(t[0] == 'var' for t in toks)
            ok = (k == 'number' and mon.fval(slot) == want)
            if reads:
                res.count('reads_checked')
                res.distinct.add(sig_prefix, tuple(t for t, _ in lines), i)
            if ok:
                res.count('lines_ok')
                if kind == 'assign-num':
                    env[spec[1]] = ('num', want)
            else:
                cls = 'read' if reads else 'literal'
                out.append((i, 'program:%s:%s' % (kind, cls), 'line %d %r should evaluate to %r, got %s' % (i, text, want, mon.describe(slot))))
                # keep going with what the implementation holds now, so that one defect is one report
                if kind == 'assign-num' and k == 'number':
                    env[spec[1]] = ('num', mon.fval(slot))
                elif kind == 'assign-num' and k not in ('err', 'abnormal', 'empty', 'none'):
                    env[spec[1]] = ('typed', value_of_slot(slot))
            continue
        if kind == 'assign-typed':
            if k in ('err', 'abnormal', 'empty'):
                out.append((i, 'program:typed-literal', 'line %d %r did not evaluate: %s' % (i, text, mon.describe(slot))))
                continue
            ov = value_of_slot(slot)
            if ov.get('k') != spec[2]:
                res.count('typed_literal_other_kind')
            if ov.get('k') == 'none':
                continue
            env[spec[1]] = ('num', bits2f(ov['bits'])) if ov.get('k') == 'number' else ('typed', ov)
            res.count('lines_ok')
            continue
        if kind == 'copy' or kind == 'use':
            src = spec[2] if kind == 'copy' else spec[1]
            if src not in env:
                res.count('lines_not_judged')
                continue
            want = env[src]
            res.count('reads_checked')
            if kind == 'copy':
                res.count('copies_checked')
            res.distinct.add(sig_prefix, tuple(t for t, _ in lines), i)
            if want[0] == 'num':
                ok = (k == 'number' and mon.fval(slot) == want[1])
            else:
                ok = same_value(value_of_slot(slot), want[1])
            if ok:
                res.count('lines_ok')
                if kind == 'copy' and not (want[0] == 'typed' and want[1].get('k') == 'none'):
                    env[spec[1]] = want          # (copying a name that holds no value leaves the binding of the target as it is)
            else:
                out.append((i, 'program:%s:%s' % (kind, 'num' if want[0] == 'num' else want[1].get('k')),
                            'line %d %r should give the value bound to %r (%s), got %s' % (i, text, src, want[1], mon.describe(slot))))
                if kind == 'copy' and k not in ('err', 'abnormal', 'empty', 'none'):
                    ov = value_of_slot(slot)
                    env[spec[1]] = ('num', bits2f(ov['bits'])) if ov.get('k') == 'number' else ('typed', ov)
            continue
        if kind == 'fail':
            if k in ('err', 'abnormal', 'empty'):
                res.count('failing_lines_observed')
                if k == 'abnormal':
                    out.append((i, 'program:abnormal', 'line %d %r: %s' % (i, text, mon.describe(slot))))
            else:
                # it evaluated after all (e.g. 'x = * 3' reads as 0 * 3): bind what was observed
                res.count('malformed_lines_that_evaluated')
                ov = value_of_slot(slot)
                env[spec[1]] = ('num', bits2f(ov['bits'])) if ov.get('k') == 'number' else ('typed', ov)
            continue
    return out


# ------------------------------------------------------------------ substitution: a name denotes the value it was bound to
# A line that uses names must evaluate like the same line with every name replaced by the literal it was last bound to - whatever
# the feature the line belongs to (a currency code after a number variable is not generated: a money literal is digits plus code;
# units after a number variable, 'date at time', juxtaposed durations, conversions, phrases ...).
SUB_LITERALS = {
    'num': ['3', '255', '12,5', '1000', '0xFF', '0b101', '0o17', '64', '7', '2048'],
    'pct': ['15%', '%7,5', '120%'],
    'money': ['$20', '35 usd', '12,5 eur', '100 cad', '1k try'],
    'dur': ['3 hours', '45 minutes', '2 days 4 hours', '90 seconds', '1 week'],
    'date': ['12/12/2020', '5 march 2020', 'january 28, 2019', '31 december 1999'],
    'time': ['11:30', '3 pm', '17:45:10', '10:30 EST', '0:15'],
    'len': ['5 km', '3 mile', '7 inch', '250 cm'],
    'mem': ['64 kb', '2 gb'],
    # money with more digits than the currency prints (the reference writes the expression in parentheses)
    'mexpr': ['$100 / 3', '10 usd / 7', '$1 / 3', '100 eur / 7', '10 usd to try', '2 try / 3'],
}
SUB_SAME_VALUE = [('255', '0xFF'), ('0xFF', '255'), ('8', '0o10'), ('5', '0b101'), ('0b101', '5'), ('16', '0x10')]     # same magnitude, other base
SUB_TEMPLATES = [
    '{num}', '{num} {num2}', '{num} {num2} {num3}', '{num} {num2} {num3} + 1', '{dur} {dur2} {dur3}', '{num} km', '{num} km to m', '{num} mb to gb', '{num} hours', '{num} minutes 30 seconds', '{num} * 2', '2 * {num}', '{num} to hex',
    '{num} to decimal', '{num} to binary', '{num} + {num2}', '({num} + 1) * {num2}', '{num} days + 2 hours', '{num} kg to lb',
    '{date} at {time}', '{date} + {dur}', '{date} - {dur}', '{date} to {date2}', '{date} as unix', '{date} + {num} days', '{date}',
    '{time} + {dur}', '{time} - {dur}', '{time} to CET', '{time} to {time2}', '{time}',
    '{money} to eur', '{money} + {money2}', '{pct} of {money}', '{money} + {pct}', '{money} - {pct}', '{money} * {num}', '{money} / {money2}',
    '{pct} off {money}', '{money} is what % of {money2}', '{money}',
    '{dur} {dur2}', '{dur} + {dur2}', '{dur} - {dur2}', '{dur} as minutes', '{dur} to seconds', '5 hours - {dur} 30 minutes', '{dur}',
    '{len} to m', '{len} + {len2}', '{len} * {num}', '{len} / {len2}', '{mem} to mb', '{mem} + {mem2}',
    '{mexpr} * 3', '{mexpr} * 1000', '{mexpr} * {num}', '{mexpr} / 0,001',
    '200 + -{pct}', '200 - -{pct}', '{money} * -{pct}', '{money} + -{pct}', '{num} + -{num2}', '{num} * -{num2}', '{num} - -{num2}', '{num} / -{num2}', '{money} * -{num}', '{len} * -{num}',
    '{pct} of {num}', '{num} + {pct}', '{num} - {pct}', '{pct} on {num}', '{num} is {pct} of what', '{num} is what % of {num2}', '{pct}',
]
# ('euro rate' contains an alias word, 'tax-rate' a character that is an operator: both are only used here, where no number literal
# stands directly in front of a name)
SUB_NAMES = ['zq', 'wv', 'mk', 'qux', 'zq total', 'wv rate', 'günlük ücret', 'rent xx', 'sometimes', 'checksum', 'euro rate', 'tax-rate',
             'monthly_rent', 'east', 'west', 'may']          # an underscore in a name; names that are a zone or month word and nothing else


def substitution_case(rng):
    """-> (program text, reference line, template)"""
    tpl = rng.choice(SUB_TEMPLATES)
    slots = re.findall(r'\{([a-z]+)([23]?)\}', tpl)
    names = rng.sample(SUB_NAMES, len(slots))
    lines = []
    prog, ref = tpl, tpl
    for (kind, two), name in zip(slots, names):
        lit = rng.choice(SUB_LITERALS[kind])
        r = rng.random()
        if r < 0.25:
            # bound before to another literal of the kind: the name denotes the most recent binding
            first = rng.choice(SUB_LITERALS[kind])
            if kind == 'num' and rng.random() < 0.5:
                first, lit = rng.choice(SUB_SAME_VALUE)
            lines.append('%s = %s' % (name, first))
        lines.append('%s = %s' % (recase(rng, name), lit))
        key_ = '{%s%s}' % (kind, two)
        prog = prog.replace(key_, recase(rng, name), 1)
        ref = ref.replace(key_, ('(%s)' % lit) if kind == 'mexpr' else lit, 1)
    return '\n'.join(lines + [prog]), ref, tpl


def value_of(slot):
    if slot is None or 'v' not in slot:
        return (mon.kind(slot),)
    v = dict(slot['v'])
    v.pop('names', None)
    return tuple(sorted(v.items()))


def run_substitution(ctx, drv, cfg, cops):
    rng, res = ctx.rng, ctx.res
    cases = [substitution_case(rng) for _ in range(120)]
    ops = list(cops)
    for prog, ref, tpl in cases:
        ops.append({'op': 'execute', 'lang': 'en', 'text': prog})
        ops.append({'op': 'execute', 'lang': 'en', 'text': ref})
    rs = drv.run(ops)[len(cops):]
    for k, (prog, ref, tpl) in enumerate(cases):
        a, b = mon.last_slot(rs[2 * k]), mon.last_slot(rs[2 * k + 1])
        res.cases += 1
        res.count('substitution_cases')
        res.distinct.add('subst', prog)
        res.cover('substitution template', tpl, len(SUB_TEMPLATES))
        if mon.kind(b) in ('err', 'empty'):
            # the written-out line itself has no value ('5 march 2020 at 10:30 EST' is not accepted): nothing to compare with
            res.count('substitution_reference_without_value')
            continue
        if value_of(a) == value_of(b):
            res.count('lines_ok')
            continue
        res.violation('program:substitution:%s' % tpl.replace(' ', '_'),
                      'the program %r gives %s in its last line; the same line with the bound literals written out, %r, gives %s'
                      % (prog.split('\n'), mon.describe(a), ref, mon.describe(b)),
                      {'config': cfg, 'lang': 'en', 'text': prog, 'reference': ref, 'ops': cops + [{'op': 'execute', 'lang': 'en', 'text': prog}, {'op': 'execute', 'lang': 'en', 'text': ref}]})


def run_shard(ctx):
    rng = ctx.rng
    res = ctx.res
    drv = ctx.driver(rw=True)
    names_all = screened_names()
    res.notes.append('shard %d: %d names pass the lexicon screen' % (ctx.shard, len(names_all)))
    cfg = mon.cfg_with()
    cops = mon.gh.config_ops(cfg)
    shrunk = 0
    while not ctx.out_of_time():
        if rng.random() < 0.25:
            run_substitution(ctx, drv, cfg, cops)
            continue
        progs = []
        ops = list(cops)
        for _ in range(25):
            names = rng.sample(names_all, rng.randint(3, min(8, len(names_all))))
            if rng.random() < 0.4:
                for n in ('zq', 'zq total', 'zq total cost'):
                    if n in names_all and n not in names:
                        names.append(n)
            p = Program(rng, names)
            target = rng.randint(3, 40)
            guard = 0
            while len(p.lines) < target and guard < 200:
                guard += 1
                p.gen_line()
            text = '\n'.join(t for t, _ in p.lines)
            via_session = rng.random() < 0.3 and len(p.lines) >= 4
            if via_session:
                cuts = sorted(rng.sample(range(1, len(p.lines)), min(len(p.lines) - 1, rng.randint(1, 3))))
                chunks, prev = [], 0
                for c in cuts + [len(p.lines)]:
                    chunks.append(p.lines[prev:c])
                    prev = c
                if rng.random() < 0.35:
                    # the same text is set again on the session (an editor refresh): its lines are evaluated again, top to bottom
                    j = rng.randrange(len(chunks))
                    chunks.insert(j + 1, list(chunks[j]))
                    p.lines = [ln for ch in chunks for ln in ch]
                    text = '\n'.join(t for t, _ in p.lines)
                    res.count('session_text_set_again')
                ops.append({'op': 'session_new', 's': 1})
                ops.append({'op': 'session_set_language', 's': 1, 'lang': 'en'})
                idxs = []
                for ch in chunks:
                    ops.append({'op': 'session_set_text', 's': 1, 'text': '\n'.join(t for t, _ in ch)})
                    ops.append({'op': 'execute_session', 's': 1})
                    idxs.append((len(ops) - 1, len(ch)))
                progs.append((p, text, 'session', idxs))
            else:
                ops.append({'op': 'execute', 'lang': 'en', 'text': text})
                progs.append((p, text, 'execute', [(len(ops) - 1, len(p.lines))]))
        rs = drv.run(ops)
        for p, text, via, idxs in progs:
            slots = []
            abnormal = None
            for idx, n in idxs:
                r = rs[idx]
                res.note_rw(r)
                if 'lines' not in r or len(r['lines']) != n:
                    abnormal = (r, n)
                    break
                slots.extend(r['lines'])
            res.cases += 1
            res.count('programs_via_' + via)
            res.count('program_lines', len(p.lines))
            if abnormal is not None:
                r, n = abnormal
                what = 'program of %d lines (via %s): expected %d slots, got %s' % (len(p.lines), via, n, str({k: r[k] for k in r if k in ('panic', 'hang', 'crash', 'status')} or len(r.get('lines', [])))[:300])
                res.violation('program:%s:abnormal' % via, what, {'text': text, 'via': via, 'ops': cops + [{'op': 'execute', 'lang': 'en', 'text': text}]})
                continue
            problems = judge_program(p.lines, slots, res, via)
            if not problems:
                if res.cases % 97 == 0:
                    res.sample({'program': text.split('\n')[:12], 'via': via, 'slots': [None if s_ is None else s_.get('out', s_.get('err')) for s_ in slots[:12]]})
                continue
            i, sig, what = problems[0]
            res.count('programs_with_disagreement')
            witness_lines = [t for t, _ in p.lines[:i + 1]]
            if shrunk < 30 and via == 'execute':
                shrunk += 1
                witness_lines = shrink_program(drv, cops, p.lines[:i + 1], sig, res)
            res.violation(sig + (':session' if via == 'session' else ''), what + ' | minimal program: %r' % (witness_lines,),
                          {'config': cfg, 'lang': 'en', 'text': '\n'.join(witness_lines), 'full_program': text, 'via': via,
                           'ops': cops + [{'op': 'execute', 'lang': 'en', 'text': '\n'.join(witness_lines)}]})


class _Null:
    def count(self, *a, **k):
        pass

    class distinct:
        @staticmethod
        def add(*a):
            pass


def shrink_program(drv, cops, lines, sig, res, max_runs=60):
    """Drop lines while the last line keeps failing with the same signature."""
    cur = list(lines)
    runs = 0

    def fails(cand):
        nonlocal runs
        runs += 1
        text = '\n'.join(t for t, _ in cand)
        r = drv.run(cops + [{'op': 'execute', 'lang': 'en', 'text': text}])[-1]
        if 'lines' not in r or len(r['lines']) != len(cand):
            return False
        probs = judge_program(cand, r['lines'], _Null(), 'shrink')
        return any(p[0] == len(cand) - 1 and p[1] == sig for p in probs)
    i = 0
    while i < len(cur) - 1 and runs < max_runs:
        cand = cur[:i] + cur[i + 1:]
        if fails(cand):
            cur = cand
        else:
            i += 1
    return [t for t, _ in cur]

"""C19 - every configured language is a relabelling of the same calculator. DESIGN.md 3.C19."""

import datetime
import re

from . import gen_expr as ge
from . import lex, mon
from .c09 import add_months, gen_date
from .c09 import expected_print as date_print
from .c10 import expected_print as dur_print
from .c10 import part_seconds
from .numfmt import DEFAULT_SEP

SPEC = {
    'rule': ('word-dependent structured forms (durations, duration sums and differences, date +- duration, today / tomorrow / yesterday, '
             'month-name dates with long and short names, operator words) rendered in en and, word by word from config.json\'s tables and '
             'using every configured spelling, in every other configured language: the values must be equal to each other and to the '
             'C09/C10 oracle, and each output must be the language\'s own rendering; word-independent forms (arithmetic trees, money '
             'literals / sums / conversion without connective, percentage phrases, variable programs) are evaluated under every language '
             'tag and must give identical values and outputs. Forms containing a word without counterpart are skipped and counted. '
             'non-trivial = a compared pair; distinct = distinct (form, renderings)'),
    'min_nontrivial': 2000,
    'budget_s': {'quick': 35, 'thorough': 360},
    'assumptions': ['the translation is word by word; word order of the date spellings common to both languages is used (d Month [y], d/m/y)'],
}

COUNTS = [0, 1, 2, 3, 7, 11, 12, 13, 25, 30, 59, 60, 90, 365, 400, 1000]


def spell_dur(rng, lang, parts):
    words = lex.duration_words(lang)
    out = []
    for c, u in parts:
        if u not in words:
            return None
        out.append('%d %s' % (c, rng.choice(words[u])))
    return ' '.join(out)


def spell_month_date(rng, lang, d, with_year, which):
    if which == 'numeric':
        return '%d/%d/%d' % (d.day, d.month, d.year)          # day/month/year in digits is a date spelling of every language
    lm, sm = lex.months(lang)
    table = lm if which == 'long' else sm
    names = [n for n, k in table.items() if k == d.month]
    if not names:
        return None
    name = rng.choice(names)
    if rng.random() < 0.3:
        name = name[0].upper() + name[1:]          # as the calculator itself prints it ('12 Şubat', '5 March')
    return '%d %s%s' % (d.day, name, (' %d' % d.year) if with_year else '')


def _embeddable():
    words = set()
    for l in lex.languages():
        lm, sm = lex.months(l)
        words |= set(lm) | set(sm)
        for ws in lex.duration_words(l).values():
            words |= set(ws)
        for ws in lex.operator_words(l).values():
            words |= set(w for w in ws if w.isalpha())
    return sorted(w for w in words if w.isalpha() and len(w) >= 2)


EMBEDDABLE = _embeddable()
ALL_WORDS = set()
for _l in lex.languages():
    ALL_WORDS |= lex.all_words(_l)


def embed(rng, w):
    """a longer word that contains the table word w (at its start, at its end or inside)"""
    for _ in range(20):
        pre, post = rng.choice(['zz', 'q', 'xk', 'pa', 'ho']), rng.choice(['zz', 'q', 'xk', 'be', 'total'])
        lab = rng.choice([pre + w, w + post, pre + w + post])
        if lab.lower() not in ALL_WORDS and lex.read_currency(lab) is None and lab.upper() not in lex.zones():
            return lab
    return 'zz' + w + 'zz'


def value(slot):
    if slot is None or 'v' not in slot:
        return None
    v = dict(slot['v'])
    v.pop('names', None)
    return v


def datetime_in_every_language(ctx, drv, cfg, today):
    """A date-time (only English has phrases that build one) held by a name of a session; the session is then switched to each
    configured language and the name printed: the print must carry that language's own name of the month (long or short, as the
    calculator capitalises it), the day and the time - whatever the format string of the language is."""
    rng, res = ctx.rng, ctx.res
    ops = list(mon.gh.config_ops(cfg))
    cases = []
    for _ in range(6):
        d = gen_date(rng, today)
        if rng.random() < 0.6:
            try:
                d = d.replace(year=today.year)
            except ValueError:
                continue
        hh, mm = rng.randint(0, 23), rng.randint(0, 59)
        ops += [{'op': 'session_new', 's': 5}, {'op': 'session_set_language', 's': 5, 'lang': 'en'},
                {'op': 'session_set_text', 's': 5, 'text': 'zq = %d/%d/%d at %d:%02d' % (d.day, d.month, d.year, hh, mm)}, {'op': 'execute_session', 's': 5}]
        for l in lex.languages():
            ops += [{'op': 'session_set_language', 's': 5, 'lang': l}, {'op': 'session_set_text', 's': 5, 'text': 'zq'}, {'op': 'execute_session', 's': 5}]
            cases.append((len(ops) - 1, l, d, hh, mm))
    rs = drv.run(ops)
    for idx, l, d, hh, mm in cases:
        slot = mon.last_slot(rs[idx])
        res.cases += 1
        res.count('class:date-time-printed-in-each-language')
        res.distinct.add('dtprint', l, str(d), hh, mm)
        if mon.kind(slot) != 'datetime':
            res.count('date_time_prints_not_judged')
            continue
        out = slot.get('out', '')
        long_, short = lex.print_months(l)
        names = {n[0].upper() + n[1:] for n in (long_[d.month] | short[d.month]) if n}
        ok = any(n in out for n in names) and ('%02d:%02d:00' % (hh, mm)) in out and re.search(r'(^|[^0-9])0?%d([^0-9]|$)' % d.day, out)
        if ok:
            res.count('ok')
        else:
            res.violation('lang:print:datetime:%s' % l, 'the date-time %s %02d:%02d held by a name prints as %r under %s: expected the day, one of the month names %s and the time'
                          % (d, hh, mm, out, l, sorted(names)), {'lang': l, 'ops': ops[:idx + 1]})


def run_shard(ctx):
    rng = ctx.rng
    res = ctx.res
    clock_name, epoch = ctx.clock_for_shard()
    today = mon.virtual_now(epoch).date()
    drv = ctx.driver(epoch, rw=True)
    cfg = mon.cfg_with()
    langs = lex.languages()
    others = [l for l in langs if l != 'en']
    codes = lex.rated_codes()
    nbatch = 0
    while not ctx.out_of_time():
        nbatch += 1
        if nbatch % 5 == 1:
            datetime_in_every_language(ctx, drv, cfg, today)
        cases = []   # (class, {lang: text}, oracle)
        for _ in range(80):
            r = rng.random()
            if r < 0.6:
                # ---- word-dependent
                k = rng.random()
                texts = {}
                oracle = None
                if k < 0.25:
                    parts = [(rng.choice(COUNTS), rng.choice(list(lex.DUR_LEN))) for _ in range(rng.randint(1, 4))]
                    secs = sum(part_seconds(c, u) for c, u in parts)
                    for l in langs:
                        texts[l] = spell_dur(rng, l, parts)
                    cls, oracle = 'duration', ('duration', secs)
                elif k < 0.4:
                    p1 = [(rng.choice(COUNTS), rng.choice(list(lex.DUR_LEN))) for _ in range(rng.randint(1, 2))]
                    p2 = [(rng.choice(COUNTS), rng.choice(list(lex.DUR_LEN))) for _ in range(rng.randint(1, 2))]
                    op = rng.choice('+-')
                    s1 = sum(part_seconds(c, u) for c, u in p1)
                    s2 = sum(part_seconds(c, u) for c, u in p2)
                    for l in langs:
                        a, b = spell_dur(rng, l, p1), spell_dur(rng, l, p2)
                        texts[l] = None if (a is None or b is None) else '%s %s %s' % (a, op, b)
                    cls, oracle = 'duration-sum', ('duration', s1 + s2 if op == '+' else s1 - s2)
                elif k < 0.62:
                    d = gen_date(rng, today)
                    which = rng.choice(['long', 'short', 'numeric'])
                    with_year = d.year != today.year or rng.random() < 0.5
                    unit = rng.choice(['day', 'week', 'month', 'year'])
                    n = {'day': rng.choice([1, 5, 10, 20, 29]), 'week': rng.randint(1, 4), 'month': rng.randint(1, 11), 'year': rng.choice([1, 2, 5])}[unit]
                    sign = rng.choice([1, -1])
                    if unit in ('day', 'week'):
                        try:
                            want = d + datetime.timedelta(days=sign * n * (7 if unit == 'week' else 1))
                        except OverflowError:
                            continue      # outside years 1..9999
                    else:
                        want = add_months(d, sign * n * (12 if unit == 'year' else 1))
                    if want is None or want == 'missing-day' or (unit in ('month', 'year') and sign < 0 and (d.month - (n * (12 if unit == 'year' else 1)) % 12) <= 0):
                        continue          # covered (and classified) by C09
                    if unit == 'week' and n * 7 >= 30:
                        continue
                    for l in langs:
                        a = spell_month_date(rng, l, d, with_year, which)
                        b = spell_dur(rng, l, [(n, unit)])
                        texts[l] = None if (a is None or b is None) else '%s %s %s' % (a, '+' if sign > 0 else '-', b)
                    cls, oracle = 'date-arith', ('date', want)
                elif k < 0.66:
                    # the number of days between two dates held by names (names of one or several words), in each language's range form
                    d1, d2 = gen_date(rng, today), gen_date(rng, today)
                    n1, n2 = rng.choice([('ilk tarih', 'son tarih'), ('zq', 'wv'), ('zq total', 'wv'), ('zq', 'wv rate'), ('günlük ücret', 'mk')])
                    for l in langs:
                        a, b = spell_month_date(rng, l, d1, True, 'numeric'), spell_month_date(rng, l, d2, True, 'numeric')
                        texts[l] = '%s = %s\n%s = %s\n' % (n1, a, n2, b) + (('%s to %s' % (n1, n2)) if l == 'en' else ('%s %s arası' % (n1, n2)))
                    cls, oracle = 'range-of-named-dates', ('duration', abs((d2 - d1).days) * 86400)
                elif k < 0.8:
                    d = gen_date(rng, today)
                    which = rng.choice(['long', 'short', 'numeric'])
                    with_year = d.year != today.year or rng.random() < 0.5
                    for l in langs:
                        texts[l] = spell_month_date(rng, l, d, with_year, which)
                    cls, oracle = 'month-date:' + which, ('date', d)
                elif k < 0.9:
                    w = rng.choice(['today', 'tomorrow', 'yesterday'])
                    off = {'today': 0, 'tomorrow': 1, 'yesterday': -1}[w]
                    n = rng.choice([0, 1, 3, 10])
                    for l in langs:
                        dw = lex.day_words(l).get(w)
                        b = spell_dur(rng, l, [(n, 'day')])
                        texts[l] = None if (not dw or b is None) else ('%s + %s' % (rng.choice(dw), b) if n else rng.choice(dw))
                    cls, oracle = 'day-word', ('date', today + datetime.timedelta(days=off + n))
                else:
                    op = rng.choice('+-*/')
                    a, b = rng.randint(1, 500), rng.randint(1, 50)
                    want = {'+': a + b, '-': a - b, '*': a * b, '/': a / b}[op]
                    for l in langs:
                        ws = lex.operator_words(l).get(op)
                        texts[l] = None if not ws else '%d %s %d' % (a, rng.choice(ws), b)
                    cls, oracle = 'operator-word', ('number', float(want))
                if texts.get('en') is None:
                    res.count('forms_without_english_counterpart_skipped')
                    continue
                cases.append((cls, texts, oracle, True))
            else:
                # ---- word-independent: the same text under every language tag
                k = rng.random()
                if k < 0.35:
                    tree = ge.gen_tree(rng, rng.randint(1, 3), {'suffix': False, 'deep_paren': False, 'group_sign': False, 'detached': False, 'juxt': False})
                    toks = ge.lex_tokens(tree, DEFAULT_SEP)
                    if ge.date_like(toks, DEFAULT_SEP):
                        continue
                    text = ge.join(toks, 'single')
                    cls = 'arithmetic'
                elif k < 0.6:
                    a, b = rng.choice(codes), rng.choice(codes)
                    x, y = rng.choice(['10', '12,5', '250', '1k']), rng.choice(['5', '99,9', '3'])
                    text = rng.choice(['%s %s' % (x, a), '%s %s %s' % (x, a, b), '%s %s + %s %s' % (x, a, y, b), '%s %s * %s' % (x, a, y), '$%s - %s %s' % (y, y, b)])
                    cls = 'money'
                elif k < 0.8:
                    x, p = rng.choice(['200', '19,9', '1000', '$200', '200 try', '35 eur', '1k usd']), rng.choice(['10', '12,5', '150'])
                    text = rng.choice(['%s + %s%%' % (x, p), '%s - %%%s' % (x, p), '%s%% of %s' % (p, x), '%s on %s%%' % (x, p), '%s%% off %s' % (p, x),
                                       '%s is what %% of %s' % (p, x), '%s is %s%% of what' % (x, p)])
                    cls = 'percent'
                elif k < 0.86:
                    x, y = rng.randint(1, 999), rng.randint(1, 99)
                    text = 'zq = %d\nwv rate = zq * %d\nwv rate - zq' % (x, y)
                    cls = 'variables'
                elif k < 0.93:
                    # labels and names that merely *contain* a word of some language's tables (a month, duration or operator word of
                    # any configured language inside a longer word) are ordinary text in every language
                    labs = [embed(rng, rng.choice(EMBEDDABLE)) for _ in range(3)]
                    a, b, c = rng.randint(1, 900), rng.randint(1, 90), rng.randint(1, 9)
                    if rng.random() < 0.5:
                        text = '%s %d + %s %d + %s %d' % (labs[0], a, labs[1], b, labs[2], c)
                        oracle_ = ('number', float(a + b + c))
                    else:
                        text = '%s = %d\n%s = %d\n%s + %s' % (labs[0], a, labs[1], b, labs[0], labs[1])
                        oracle_ = ('number', float(a + b)) if labs[0] != labs[1] else ('number', float(2 * b))
                    cases.append(('label-containing-a-table-word', {l: text for l in langs}, oracle_, False))
                    continue
                else:
                    # one phrase many times on a line: the rewriting needs as many rule applications as there are terms, in every language
                    n = rng.choice([2, 5, 10, 14, 15, 16, 20, 21, 25, 30])
                    kind = rng.randrange(3)
                    if kind == 0:
                        p_, x_ = rng.choice([10, 25, 50]), rng.choice([200, 80, 1000])
                        text = ' + '.join(['%d%% of %d' % (p_, x_)] * n)
                        oracle_ = ('number', float(n * (x_ * p_ // 100)))
                    elif kind == 1:
                        text = ' + '.join('$%d' % j for j in range(1, n + 1))
                        oracle_ = None
                    else:
                        text = ' + '.join(['%d - 10%%' % rng.choice([100, 200])] * 1 + ['10%% of 50'] * (n - 1))
                        oracle_ = None
                    cases.append(('one-rule-many-times', {l: text for l in langs}, oracle_, False))
                    continue
                cases.append((cls, {l: text for l in langs}, None, False))
        # run per language
        results = {}
        for l in langs:
            idx = [i for i, c in enumerate(cases) if c[1].get(l) is not None]
            rs = mon.run_lines(drv, cfg, [(l, cases[i][1][l]) for i in idx])
            for i, r in zip(idx, rs):
                results[(i, l)] = mon.last_slot(r)
        for i, (cls, texts, oracle, word_dep) in enumerate(cases):
            en = results[(i, 'en')]
            for l in others:
                if texts.get(l) is None:
                    res.count('forms_without_counterpart_in_%s_skipped' % l)
                    continue
                other = results[(i, l)]
                res.cases += 1
                res.count('class:' + cls.split(':')[0])
                res.distinct.add(cls, texts['en'], texts[l])
                problem, sig = None, 'lang:%s:%s' % (cls, l)
                ven, vo = value(en), value(other)
                if oracle is not None:
                    # both languages against the oracle, so that the report says which side is wrong
                    for lang_, slot, v in (('en', en, ven), (l, other, vo)):
                        ok = False
                        if v is not None:
                            if oracle[0] == 'duration':
                                ok = v.get('k') == 'duration' and v.get('secs') == oracle[1]
                            elif oracle[0] == 'date':
                                ok = v.get('k') == 'date' and mon.parse_date(v.get('d', '')) == oracle[1]
                            else:
                                ok = v.get('k') == 'number' and mon.fval(slot) == oracle[1]
                        if not ok:
                            problem = '%r (%s) should be %s %s, got %s' % (texts[lang_], lang_, oracle[0], oracle[1], mon.describe(slot))
                            sig = 'lang:%s:%s' % (cls, lang_)
                            break
                        exp_out = None
                        if oracle[0] == 'duration':
                            exp_out = {dur_print(oracle[1], lang_)}
                        elif oracle[0] == 'date':
                            exp_out = date_print(lang_, oracle[1], today)
                        if exp_out is not None and slot.get('out') not in exp_out:
                            problem = '%r (%s) prints %r, expected %s' % (texts[lang_], lang_, slot.get('out'), sorted(exp_out))
                            sig = 'lang:print:%s:%s' % (oracle[0], lang_)
                            break
                else:
                    if ven != vo:
                        problem = '%r gives %s under en and %s under %s' % (texts['en'], mon.describe(en), mon.describe(other), l)
                    elif (en or {}).get('out') != (other or {}).get('out'):
                        problem = '%r prints %r under en and %r under %s' % (texts['en'], (en or {}).get('out'), (other or {}).get('out'), l)
                        sig = 'lang:print:%s:%s' % (cls, l)
                if problem is None:
                    res.count('ok')
                    if res.cases % 499 == 0:
                        res.sample({'class': cls, 'en': texts['en'], l: texts[l], 'en_result': mon.describe(en), l + '_result': mon.describe(other)})
                    continue
                res.violation(sig, problem, {'config': cfg, 'texts': texts, 'epoch': epoch, 'lang': l, 'text': texts[l],
                                             'ops': mon.gh.config_ops(cfg) + [{'op': 'execute', 'lang': 'en', 'text': texts['en']}, {'op': 'execute', 'lang': l, 'text': texts[l]}]})

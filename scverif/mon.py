"""Small helpers shared by the monitors."""

import datetime
from fractions import Fraction

from . import gen_hostile as gh
from .core import bits2f, show_value

DEFAULT_CFG = {'dec': ',', 'thou': '.', 'digits': 2, 'rm': True, 'round': True, 'tz': 'UTC'}


def cfg_with(**kw):
    c = dict(DEFAULT_CFG)
    c.update(kw)
    return c


_NOISE = [0]


_RESTORE = [False]


def run_lines(drv, cfg, items, extra_ops=(), dates=True, config_edits=None):
    """items: [(lang, text)] single- or multi-line. -> list of results (one per item): the
    driver result dict of the execute op."""
    # every fourth batch runs after a neutral piece of API history (see gen_hostile.config_ops); the flag is set on the caller's
    # configuration object so that the witness ops the monitor builds afterwards reproduce it
    _NOISE[0] += 1
    cfg['noise'] = (_NOISE[0] % 4 == 0)
    # every twelfth batch runs on a calculator constructed through load_from_json from the shipped configuration text (plus the date
    # patterns default() registers): the other public constructor must give the same calculator; the batch after it gets a new default one
    cfg['json_built'] = (_NOISE[0] % 12 == 5)
    cfg['restore_default'] = (_NOISE[0] % 12 == 6) or _RESTORE[0]
    _RESTORE[0] = False
    if config_edits is not None:
        # the caller wants this batch on a calculator built from the configuration text with its own (meaningful) edits
        cfg['json_built'], cfg['restore_default'] = True, False
        _RESTORE[0] = True
    if cfg['json_built']:
        # ... with edits to the text that carry no meaning: the items of each unit table (every item has its own index) and the words
        # of each word group listed in another order; monitors whose lines contain no dates also run without the date patterns
        cfg['json_edits'] = gh.neutral_config_edits(_NOISE[0]) + list(config_edits or [])
        cfg['json_dates'] = dates or (_NOISE[0] % 24 == 5)
    else:
        cfg.pop('json_edits', None)
        cfg.pop('json_dates', None)
    cops = gh.config_ops(cfg) + list(extra_ops)
    ops = cops + [{'op': 'execute', 'lang': lang, 'text': text} for (lang, text) in items]
    rs = drv.run(ops)
    return rs[len(cops):]


def slot0(r):
    """first slot of a result, or an 'abnormal' marker"""
    if 'lines' in r and len(r['lines']) >= 1:
        return r['lines'][0]
    return {'abnormal': {k: r[k] for k in r if k in ('panic', 'hang', 'crash', 'status', 'driver_error')}}


def last_slot(r):
    if 'lines' in r and len(r['lines']) >= 1:
        return r['lines'][-1]
    return {'abnormal': {k: r[k] for k in r if k in ('panic', 'hang', 'crash', 'status', 'driver_error')}}


def kind(slot):
    if slot is None:
        return 'empty'
    if 'abnormal' in slot:
        return 'abnormal'
    if 'err' in slot:
        return 'err'
    return slot.get('v', {}).get('k', '?')


def fval(slot):
    return bits2f(slot['v']['bits'])


def describe(slot):
    if slot is None:
        return 'empty slot'
    if 'abnormal' in slot:
        return 'abnormal: %s' % (str(slot['abnormal'])[:300],)
    if 'err' in slot:
        return 'error %r' % slot['err']
    return '%r = %s' % (slot.get('out'), show_value(slot.get('v')))


def close(obs, want, scale, rel=1e-12):
    """|obs - want| <= rel * scale  (scale = sum of magnitudes of the formula's terms)"""
    want_f = float(want)
    if obs == want_f:
        return True
    if obs != obs or obs in (float('inf'), float('-inf')):
        return False
    tol = rel * float(scale)
    return abs(Fraction(obs) - Fraction(want)) <= Fraction(tol) if tol > 0 else False


def frac_of_canon(canon):
    return Fraction(canon)


def parse_date(s):
    """'YYYY-MM-DD' (chrono Display) -> datetime.date or None (out of Python's range)"""
    try:
        neg = s.startswith('-')
        y, m, d = s.lstrip('+-').split('-')
        if neg:
            return None
        return datetime.date(int(y), int(m), int(d))
    except Exception:
        return None


def parse_datetime(s):
    """'YYYY-MM-DD HH:MM:SS' -> datetime.datetime (naive) or None"""
    try:
        d, t = s.split(' ')
        dd = parse_date(d)
        if dd is None:
            return None
        hh, mm, ss = t.split('.')[0].split(':')
        return datetime.datetime(dd.year, dd.month, dd.day, int(hh), int(mm), int(ss))
    except Exception:
        return None


EPOCH = datetime.datetime(1970, 1, 1)


def virtual_now(epoch):
    return EPOCH + datetime.timedelta(seconds=epoch)

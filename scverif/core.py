"""Shared machinery: building and talking to scdriver, supervising it, verdicts,
known findings, evidence files. Standard library only. See DESIGN.md section 2."""

import fcntl
import hashlib
import json
import os
import random
import struct
import subprocess
import sys
import threading
import time
import traceback

ROOT = os.path.dirname(os.path.dirname(os.path.abspath(__file__)))
# The registered checks always run against /repo with /verif/driver. The two environment variables exist only for tools/matrix.sh,
# which tries the seeded changes on a scratch copy of the repository (outside /repo and /verif) with a scratch copy of the driver
# crate whose path dependency points at that copy, so that /repo stays untouched while the matrix runs.
REPO = os.environ.get('SCVERIF_REPO', '/repo')
DRIVER_DIR = os.environ.get('SCVERIF_DRIVER_DIR', os.path.join(ROOT, 'driver'))
DRIVER_BIN = os.path.join(DRIVER_DIR, 'target', 'debug', 'scdriver')
SHIM_SRC = os.path.join(ROOT, 'shim', 'fakeclock.c')
SHIM_LIB = os.path.join(ROOT, 'shim', 'libfakeclock.so')
EVIDENCE_DIR = os.environ.get('SCVERIF_EVIDENCE_DIR', os.path.join(ROOT, 'evidence'))
REPLAY_DIR = os.environ.get('SCVERIF_REPLAY_DIR', os.path.join(ROOT, 'replays'))
WORK_DIR = os.environ.get('SCVERIF_WORK_DIR', os.path.join(ROOT, 'work'))
KNOWN_FILE = os.path.join(ROOT, 'KNOWN_FINDINGS.txt')

HANG_CPU_S = 60.0          # CPU seconds without a completed op => hang witness
STALL_WALL_S = 600.0       # wall seconds without progress and without CPU => inconclusive

# Virtual dates (UTC epoch seconds). The first two are used by the quick tier.
CLOCKS = {
    'leapday-2024': 1709208000,        # 2024-02-29 12:00:00
    'mid-2026': 1790000000,            # 2026-09-21 13:33:20 (close to the real date of this sandbox)
    'newyear-eve-2023': 1704067199,    # 2023-12-31 23:59:59
    'newyear-2025': 1735689600,        # 2025-01-01 00:00:00
    'apr30-2027': 1809086400,          # 2027-04-30 12:00:00 (last day of a 30-day month)
    'y9998': 253375214400,             # 9998-02-20 12:00:00
    'dst-gap-2024': 1710072000,        # 2024-03-10 12:00:00, the day US zones skip 02:00-03:00 (used with TZ=America/New_York)
}
QUICK_CLOCKS = ['leapday-2024', 'mid-2026', 'dst-gap-2024']
THOROUGH_TZS = ['UTC', 'America/New_York', 'Asia/Kolkata', 'Pacific/Chatham']


class Inconclusive(Exception):
    pass


# ------------------------------------------------------------------------------------
# building

def _run(cmd, cwd=None, env=None, timeout=1800):
    return subprocess.run(cmd, cwd=cwd, env=env, stdout=subprocess.PIPE, stderr=subprocess.STDOUT,
                          text=True, timeout=timeout)


def build(verbose=False):
    """Build the clock shim and the driver from /repo's current working tree (hooks on).
    Serialised by a lock file so that concurrent checks do not race in cargo."""
    os.makedirs(WORK_DIR, exist_ok=True)
    lock_path = os.path.join(WORK_DIR, 'build.lock')
    with open(lock_path, 'w') as lock:
        fcntl.flock(lock, fcntl.LOCK_EX)
        shim_ok = True
        if (not os.path.exists(SHIM_LIB)) or os.path.getmtime(SHIM_LIB) < os.path.getmtime(SHIM_SRC):
            r = _run(['cc', '-O2', '-fPIC', '-shared', '-o', SHIM_LIB, SHIM_SRC, '-ldl'])
            shim_ok = (r.returncode == 0)
            if not shim_ok and verbose:
                print(r.stdout)
        # Cargo.lock: start from the repository's so that the same dependency versions are used
        lock_src = os.path.join(REPO, 'Cargo.lock')
        lock_dst = os.path.join(DRIVER_DIR, 'Cargo.lock')
        if os.path.exists(lock_src) and not os.path.exists(lock_dst):
            with open(lock_src) as f, open(lock_dst, 'w') as g:
                g.write(f.read())
        env = dict(os.environ)
        env['CARGO_NET_OFFLINE'] = 'true'
        env.pop('LD_PRELOAD', None)
        manifest = os.path.join(DRIVER_DIR, 'Cargo.toml')
        cfg = []
        r = _run(['cargo', 'build', '--offline', '--manifest-path', manifest] + cfg, env=env)
        if r.returncode != 0:
            tail = '\n'.join(r.stdout.splitlines()[-40:])
            raise Inconclusive('driver build failed:\n' + tail)
        if verbose:
            print(r.stdout.splitlines()[-1] if r.stdout else '')
        return shim_ok


# ------------------------------------------------------------------------------------
# floats

def f2bits(x):
    return '%016x' % struct.unpack('<Q', struct.pack('<d', x))[0]


def bits2f(h):
    return struct.unpack('<d', struct.pack('<Q', int(h, 16)))[0]


def val_float(v):
    """The double carried by a number / percent / money / unit value."""
    return bits2f(v['bits'])


def show_value(v):
    """Human-readable copy of a driver value (for samples and replay files)."""
    if not isinstance(v, dict):
        return v
    out = dict(v)
    if 'bits' in out:
        out['f'] = repr(bits2f(out['bits']))
    return out


# ------------------------------------------------------------------------------------
# the driver process

READ_ONLY_OPS = {'execute', 'fingerprint', 'get_time_offset', 'ping'}


class Driver:
    """One scdriver child under a frozen clock and a given TZ. `run(ops)` pipelines a batch
    and returns one result per op. A crash (signal) or hang (CPU watchdog) of the child
    becomes the result {'crash': ...} / {'hang': ...} of the op in progress; the child is
    restarted, the ops of the current segment (since the last op carrying 'seg': True) are
    replayed, and the batch continues."""

    def __init__(self, epoch, tz='UTC', opts=None, use_shim=True):
        self.epoch = epoch
        self.tz = tz
        self.opts = opts or {}
        self.use_shim = use_shim and os.path.exists(SHIM_LIB)
        self.proc = None
        self.ops_run = 0
        self.crashes = 0
        self.max_steps = 0
        self._start()

    def env(self):
        env = dict(os.environ)
        env['TZ'] = self.tz
        env['RUST_BACKTRACE'] = '0'
        if self.use_shim:
            env['LD_PRELOAD'] = SHIM_LIB
            env['SCVERIF_FAKE_EPOCH'] = str(self.epoch)
        return env

    def _start(self):
        self.proc = subprocess.Popen([DRIVER_BIN], stdin=subprocess.PIPE, stdout=subprocess.PIPE,
                                     stderr=subprocess.DEVNULL, env=self.env(), bufsize=1 << 16)
        self._flag = None
        self._last_progress_wall = time.time()
        self._last_progress_cpu = 0.0
        if self.opts:
            op = dict(self.opts)
            op['op'] = 'opts'
            self._simple([op])

    def _simple(self, ops):
        data = ''.join(json.dumps(op, ensure_ascii=False) + '\n' for op in ops).encode('utf-8')
        self.proc.stdin.write(data)
        self.proc.stdin.flush()
        out = []
        for _ in ops:
            line = self.proc.stdout.readline()
            if not line:
                raise Inconclusive('driver died during set-up')
            out.append(json.loads(line))
        return out

    def _cpu(self):
        try:
            with open('/proc/%d/stat' % self.proc.pid) as f:
                parts = f.read().rsplit(')', 1)[1].split()
            return (int(parts[11]) + int(parts[12])) / os.sysconf('SC_CLK_TCK')
        except Exception:
            return None

    def _watch(self, stop):
        while not stop.wait(1.0):
            cpu = self._cpu()
            if cpu is None:
                return
            now = time.time()
            if cpu - self._last_progress_cpu >= HANG_CPU_S:
                self._flag = ('hang', cpu - self._last_progress_cpu)
                self.proc.kill()
                return
            if now - self._last_progress_wall >= STALL_WALL_S:
                self._flag = ('stall', now - self._last_progress_wall)
                self.proc.kill()
                return

    def close(self):
        if self.proc is not None:
            try:
                self.proc.stdin.close()
            except Exception:
                pass
            try:
                self.proc.wait(timeout=5)
            except Exception:
                self.proc.kill()
            self.proc = None

    def call(self, op):
        return self.run([op])[0]

    def run(self, ops):
        results = []
        n = len(ops)
        pos = 0           # next op whose result we need
        seg_start = 0
        skip = set()      # ops that crashed / hung: replaced by ping on replay
        while pos < n:
            # replay prefix of the current segment (results discarded), then the rest
            for k in range(pos, -1, -1):
                if ops[k].get('seg'):
                    seg_start = k
                    break
            else:
                seg_start = 0
            replay = []
            if self._needs_replay:
                replay = [({'op': 'ping'} if k in skip else ops[k]) for k in range(seg_start, pos)
                          if ops[k].get('op') not in READ_ONLY_OPS or ops[k].get('op') == 'ping']
            todo = replay + ops[pos:]
            n_replay = len(replay)
            data = ''.join(json.dumps(op, ensure_ascii=False) + '\n' for op in todo).encode('utf-8', 'surrogatepass')

            def writer(proc=self.proc, data=data):
                try:
                    proc.stdin.write(data)
                    proc.stdin.flush()
                except Exception:
                    pass
            wt = threading.Thread(target=writer, daemon=True)
            stop = threading.Event()
            self._flag = None
            self._last_progress_wall = time.time()
            self._last_progress_cpu = self._cpu() or 0.0
            wd = threading.Thread(target=self._watch, args=(stop,), daemon=True)
            wt.start()
            wd.start()
            got = 0
            died = False
            while got < len(todo):
                line = self.proc.stdout.readline()
                if not line:
                    died = True
                    break
                got += 1
                self._last_progress_wall = time.time()
                if got % 64 == 0:
                    self._last_progress_cpu = self._cpu() or self._last_progress_cpu
                if got > n_replay:
                    try:
                        res = json.loads(line)
                    except Exception:
                        res = {'driver_error': 'unparsable output', 'raw': line[:200].decode('utf-8', 'replace')}
                    st = res.get('steps', 0)
                    if st > self.max_steps:
                        self.max_steps = st
                    results.append(res)
                    pos += 1
            stop.set()
            self._needs_replay = False
            if not died:
                wt.join()
                break
            # the child died while working on op `pos` (or on a replayed op)
            rc = self.proc.wait()
            flag = self._flag
            self.crashes += 1
            if flag and flag[0] == 'stall':
                raise Inconclusive('driver made no progress for %.0f s of wall time without using CPU' % flag[1])
            if got < n_replay:
                raise Inconclusive('driver died while replaying a segment prefix (rc=%s)' % rc)
            if flag and flag[0] == 'hang':
                results.append({'hang': {'cpu_s': round(flag[1], 1)}})
            else:
                results.append({'crash': {'rc': rc}})
            skip.add(pos)
            pos += 1
            if self.crashes > 200:
                raise Inconclusive('driver crashed more than 200 times in one shard')
            self._start()
            self._needs_replay = True
        self.ops_run += n
        return results

    _needs_replay = False


# ------------------------------------------------------------------------------------
# distinct-case counting: a bitmap of hashes (collisions only make the count smaller)

class Distinct:
    BITS = 1 << 26

    def __init__(self):
        self.bm = bytearray(self.BITS // 8)

    def add(self, *parts):
        h = hashlib.blake2b(repr(parts).encode('utf-8', 'surrogatepass'), digest_size=8).digest()
        k = int.from_bytes(h, 'little') % self.BITS
        self.bm[k >> 3] |= 1 << (k & 7)

    def merge_bytes(self, other):
        a = int.from_bytes(self.bm, 'little') | int.from_bytes(other, 'little')
        self.bm = bytearray(a.to_bytes(len(self.bm), 'little'))

    def count(self):
        return int.from_bytes(self.bm, 'little').bit_count()

    def compact(self):
        import zlib
        return zlib.compress(bytes(self.bm), 1)

    @staticmethod
    def expand(blob):
        import zlib
        return zlib.decompress(blob)


# ------------------------------------------------------------------------------------
# known findings

def load_known():
    """-> (findings: {(prop, sig): text}, fixed: [(prop, text)])"""
    findings = {}
    fixed = []
    if os.path.exists(KNOWN_FILE):
        for raw in open(KNOWN_FILE, encoding='utf-8'):
            line = raw.strip()
            if not line or line.startswith('#'):
                continue
            if line.startswith('finding:'):
                rest = line[len('finding:'):].strip()
                parts = rest.split(None, 2)
                prop = parts[0].split('=', 1)[1]
                sig = parts[1].split('=', 1)[1]
                text = parts[2] if len(parts) > 2 else ''
                findings[(prop, sig)] = text
            elif line.startswith('fixed:'):
                rest = line[len('fixed:'):].strip()
                parts = rest.split(None, 1)
                prop = parts[0].split('=', 1)[1]
                fixed.append((prop, parts[1] if len(parts) > 1 else ''))
    return findings, fixed


# ------------------------------------------------------------------------------------
# shard results

class ShardResult:
    """What one shard observed. Everything here is plain data (it crosses a process
    boundary)."""

    def __init__(self):
        self.evaluations = 0            # driver ops executed
        self.cases = 0                  # cases judged
        self.counters = {}              # name -> int
        self.violations = []            # dicts: sig, what, witness
        self.samples = []               # a few real cases with observed values
        self.distinct = Distinct()
        self.max_steps = 0
        self.reach = {}                 # H2: "stage:name" -> count
        self.notes = []
        self.truncated = False
        self.inconclusive = None
        self.covered = {}               # finite sub-space -> set of items reached (strings)
        self.cover_sizes = {}           # finite sub-space -> its size, when the monitor knows it

    def count(self, name, n=1):
        self.counters[name] = self.counters.get(name, 0) + n

    def violation(self, sig, what, witness):
        sig = sig.replace(' ', '_')
        self.count('violations')
        # keep the first few witnesses per signature only
        same = [v for v in self.violations if v['sig'] == sig]
        if same:
            same[0]['n'] += 1
            if len(same) < 3:
                self.violations.append({'sig': sig, 'what': what, 'witness': witness, 'n': 0})
        else:
            self.violations.append({'sig': sig, 'what': what, 'witness': witness, 'n': 1})

    def cover(self, space, item, size=None):
        """record that `item` of the finite sub-space `space` was reached by a judged case"""
        st = self.covered.get(space)
        if st is None:
            st = self.covered[space] = set()
        if len(st) < 200000:
            st.add(item if isinstance(item, str) else repr(item))
        if size is not None:
            self.cover_sizes[space] = size

    def sample(self, item, cap=12):
        if len(self.samples) < cap:
            self.samples.append(item)

    def note_rw(self, res):
        for rw in res.get('rw', ()):
            key = '%s:%s' % (rw[0], rw[1])
            self.reach[key] = self.reach.get(key, 0) + 1
            if rw[3] >= rw[2] and rw[0] != 'variable':
                self.count('h2_nondecreasing_rewrites')

    def pack(self):
        d = dict(self.__dict__)
        d['distinct'] = self.distinct.compact()
        d['covered'] = {k: sorted(v) for k, v in self.covered.items()}
        return d


def merge_shards(packed_list):
    total = ShardResult()
    for d in packed_list:
        total.evaluations += d['evaluations']
        total.cases += d['cases']
        for k, v in d['counters'].items():
            total.counters[k] = total.counters.get(k, 0) + v
        for v in d['violations']:
            same = [x for x in total.violations if x['sig'] == v['sig']]
            if same:
                same[0]['n'] += v['n']
                if len(same) < 3:
                    vv = dict(v)
                    vv['n'] = 0
                    total.violations.append(vv)
            else:
                total.violations.append(dict(v))
        for s_ in d['samples']:
            if len(total.samples) < 16:
                total.samples.append(s_)
        total.distinct.merge_bytes(Distinct.expand(d['distinct']))
        total.max_steps = max(total.max_steps, d['max_steps'])
        for k, v in d['reach'].items():
            total.reach[k] = total.reach.get(k, 0) + v
        total.notes.extend(d['notes'])
        for k, v in d.get('covered', {}).items():
            total.covered.setdefault(k, set()).update(v)
        total.cover_sizes.update(d.get('cover_sizes', {}))
        total.truncated = total.truncated or d['truncated']
        if d['inconclusive'] and not total.inconclusive:
            total.inconclusive = d['inconclusive']
    return total


# ------------------------------------------------------------------------------------
# running a check

class Ctx:
    """Per-shard context handed to a monitor."""

    def __init__(self, prop, tier, seed, shard, nshards, deadline, params=None):
        self.prop = prop
        self.tier = tier
        self.seed = seed
        self.shard = shard
        self.nshards = nshards
        self.deadline = deadline
        self.params = params or {}
        self.rng = random.Random(seed * 1000003 + shard * 7919 + sum(ord(c) for c in prop))
        self.res = ShardResult()
        self._drivers = []

    def thorough(self):
        return self.tier == 'thorough'

    def clocks(self):
        names = list(CLOCKS) if self.thorough() else QUICK_CLOCKS
        return [(n, CLOCKS[n]) for n in names]

    def clock_for_shard(self):
        cl = self.clocks()
        return cl[self.shard % len(cl)]

    def env_for_shard(self):
        """-> (clock name, epoch, process TZ): the hidden inputs of this shard"""
        name, epoch = self.clock_for_shard()
        if name == 'dst-gap-2024':
            tz = 'America/New_York'
        elif self.thorough():
            tz = THOROUGH_TZS[(self.shard // len(self.clocks())) % len(THOROUGH_TZS)]
        else:
            tz = 'UTC'
        return name, epoch, tz

    def driver(self, epoch=None, tz='UTC', **opts):
        if epoch is None:
            epoch = self.clock_for_shard()[1]
        d = Driver(epoch, tz, opts)
        self._drivers.append(d)
        return d

    def out_of_time(self):
        if time.time() > self.deadline:
            self.res.truncated = True
            return True
        return False

    def finish(self):
        for d in self._drivers:
            self.res.evaluations += d.ops_run
            self.res.max_steps = max(self.res.max_steps, d.max_steps)
            d.close()
        return self.res


def _shard_main(args):
    (module_name, prop, tier, seed, shard, nshards, deadline, params) = args
    import importlib
    ctx = Ctx(prop, tier, seed, shard, nshards, deadline, params)
    try:
        mod = importlib.import_module('scverif.' + module_name)
        mod.run_shard(ctx)
    except Inconclusive as e:
        ctx.res.inconclusive = str(e)
    except Exception:
        ctx.res.inconclusive = 'monitor error in shard %d: %s' % (shard, traceback.format_exc()[-1500:])
    return ctx.finish().pack()


def clear_replays(prop, tier, seed):
    """remove the replay files of an earlier run of the same check, tier and seed"""
    if os.path.isdir(REPLAY_DIR):
        prefix = '%s-%s-seed%d-' % (prop, tier, seed)
        for name in os.listdir(REPLAY_DIR):
            if name.startswith(prefix):
                try:
                    os.remove(os.path.join(REPLAY_DIR, name))
                except OSError:
                    pass


def write_replay(prop, seed, tier, viol, index):
    os.makedirs(REPLAY_DIR, exist_ok=True)
    h = hashlib.blake2b(viol['sig'].encode('utf-8', 'surrogatepass'), digest_size=4).hexdigest()
    path = os.path.join(REPLAY_DIR, '%s-%s-seed%d-%s-%d.json' % (prop, tier, seed, h, index))
    with open(path, 'w', encoding='utf-8') as f:
        json.dump({'property': prop, 'seed': seed, 'tier': tier, 'signature': viol['sig'],
                   'what': viol['what'], 'witness': viol['witness']}, f, ensure_ascii=False, indent=1, default=str)
    return path


def run_check(prop, module_name, tier, seed, spec):
    """spec: dict with 'rule' (str), 'min_nontrivial' (int), 'budget_s' {tier: seconds},
    'assumptions' [str], 'nshards' (optional)."""
    t0 = time.time()
    import multiprocessing
    try:
        shim_ok = build()
    except Inconclusive as e:
        print('INCONCLUSIVE property=%s reason=%s' % (prop, str(e).replace('\n', ' | ')[:1500]))
        return 2
    nshards = spec.get('nshards') or min(16, os.cpu_count() or 4)
    budget = spec['budget_s'][tier]
    deadline = time.time() + budget
    params = spec.get('params', {})
    args = [(module_name, prop, tier, seed, k, nshards, deadline, params) for k in range(nshards)]
    with multiprocessing.Pool(nshards) as pool:
        packed = pool.map(_shard_main, args, chunksize=1)
    total = merge_shards(packed)
    wall = time.time() - t0

    findings, _fixed = load_known()
    known_hits = {}
    fresh = []
    for v in total.violations:
        key = (prop, v['sig'])
        if key in findings:
            if v['n']:
                known_hits[v['sig']] = known_hits.get(v['sig'], 0) + v['n']
        else:
            fresh.append(v)

    distinct = total.distinct.count()
    out_lines = []
    out_lines.append('%s %s seed=%d: %d driver ops, %d cases judged, %d distinct non-trivial, max loop steps per op %d, %.1f s'
                     % (prop, tier, seed, total.evaluations, total.cases, distinct, total.max_steps, wall))
    for k in sorted(total.counters):
        out_lines.append('  %-44s %d' % (k, total.counters[k]))
    for sig, n in sorted(known_hits.items()):
        out_lines.append('KNOWN-FINDING: property=%s sig=%s %s (seen %d times in this run)' % (prop, sig, findings[(prop, sig)], n))

    status = 0
    replay_paths = []
    seen_sig = set()
    MAX_REPORTED = 60
    clear_replays(prop, tier, seed)
    for idx, v in enumerate(fresh):
        status = 1
        if v['sig'] in seen_sig:
            if v['n'] == 0 and len(seen_sig) <= MAX_REPORTED:
                write_replay(prop, seed, tier, v, idx)          # a further witness of a reported signature
            continue
        seen_sig.add(v['sig'])
        if len(seen_sig) > MAX_REPORTED:
            continue
        path = write_replay(prop, seed, tier, v, idx)
        replay_paths.append(path)
        out_lines.append('VIOLATION property=%s replay=%s' % (prop, path))
        out_lines.append('  signature: %s (%d occurrences)' % (v['sig'], v['n']))
        out_lines.append('  %s' % (v['what'][:600],))
    if len(seen_sig) > MAX_REPORTED:
        out_lines.append('NOTE: %d further violation signatures are not listed (see evidence file)' % (len(seen_sig) - MAX_REPORTED))

    reason = None
    if total.inconclusive:
        reason = total.inconclusive
    elif distinct < spec.get('min_nontrivial', 2) and status == 0:
        reason = 'only %d distinct non-trivial cases observed (minimum %d)' % (distinct, spec.get('min_nontrivial', 2))
    if reason and status == 0:
        out_lines.append('INCONCLUSIVE property=%s reason=%s' % (prop, reason.replace('\n', ' | ')[:1500]))
        status = 2
    elif reason:
        out_lines.append('NOTE: part of the run was inconclusive: %s' % (reason.replace('\n', ' | ')[:1500],))

    os.makedirs(EVIDENCE_DIR, exist_ok=True)
    coverage = {
        'evaluations': total.evaluations,
        'cases_judged': total.cases,
        'distinct_nontrivial': distinct,
        'rule': spec['rule'],
        'samples': total.samples[:16],
        'counters': dict(sorted(total.counters.items())),
        'h1_max_loop_steps_per_op': total.max_steps,
        'h2_rewrites_observed': dict(sorted(total.reach.items())),
        'clocks': [n for n, _ in Ctx(prop, tier, seed, 0, nshards, 0).clocks()],
        'clock_mode': 'frozen virtual clock (LD_PRELOAD shim)' if shim_ok else 'real clock (shim unavailable)',
        'shards': nshards,
        'truncated_by_deadline': total.truncated,
        'known_finding_hits': known_hits,
        'fresh_violation_signatures': sorted(seen_sig)[:200],
        'verdict': {0: 'held on what was observed', 1: 'violated', 2: 'inconclusive'}[status],
        'exhaustive': False,
    }
    if total.covered:
        coverage['finite_subspaces_reached'] = {
            k: ({'reached': len(v), 'of': total.cover_sizes[k]} if k in total.cover_sizes else {'reached': len(v)})
            for k, v in sorted(total.covered.items())}
        for k, v in sorted(total.covered.items()):
            of = total.cover_sizes.get(k)
            out_lines.append('  covered %-36s %d%s' % (k, len(v), (' of %d' % of) if of else ''))
    if total.notes:
        coverage['notes'] = total.notes[:40]
    if reason:
        coverage['inconclusive_reason'] = reason[:1500]
    ev = {
        'property_id': prop,
        'tier': tier,
        'seed': seed,
        'level': 'exploration',
        'coverage': coverage,
        'assumptions': spec.get('assumptions', []),
        'wall_s': round(wall, 2),
        'violations': len(seen_sig),
    }
    with open(os.path.join(EVIDENCE_DIR, prop + '.json'), 'w', encoding='utf-8') as f:
        json.dump(ev, f, ensure_ascii=False, indent=1, default=str)
    try:
        for line in out_lines:
            print(line)
        sys.stdout.flush()
    except BrokenPipeError:
        pass
    return status

"""Entry point: python3 -m scverif setup | check Cxx --tier quick|thorough | replay <path>"""

import argparse
import importlib
import json
import os
import sys

from . import core

CHECKS = {
    'C01': 'c01', 'C02': 'c02', 'C03': 'c03', 'C04': 'c04', 'C05': 'c05', 'C06': 'c06', 'C07': 'c07',
    'C08': 'c08', 'C09': 'c09', 'C10': 'c10', 'C11': 'c11', 'C12': 'c12', 'C13': 'c13', 'C14': 'c14',
    'C15': 'c15', 'C16': 'c16', 'C17': 'c17', 'C18': 'c18', 'C19': 'c19',
}


def main():
    ap = argparse.ArgumentParser(prog='verif')
    sub = ap.add_subparsers(dest='cmd', required=True)
    sub.add_parser('setup')
    c = sub.add_parser('check')
    c.add_argument('prop')
    c.add_argument('--tier', default=None)
    c.add_argument('--budget', type=float, default=None, help='override the time budget in seconds')
    r = sub.add_parser('replay')
    r.add_argument('path')
    args = ap.parse_args()

    if args.cmd == 'setup':
        try:
            shim = core.build(verbose=True)
        except core.Inconclusive as e:
            print(str(e))
            return 2
        print('driver built; clock shim %s' % ('built' if shim else 'UNAVAILABLE (falling back to the real clock)'))
        return 0

    if args.cmd == 'check':
        prop = args.prop.upper()
        if prop not in CHECKS:
            print('unknown property %s' % prop)
            return 2
        tier = args.tier or os.environ.get('VERIF_TIER') or 'quick'
        if tier not in ('quick', 'thorough'):
            tier = 'quick'
        try:
            seed = int(os.environ.get('VERIF_SEED', '0'))
        except ValueError:
            seed = 0
        mod = importlib.import_module('scverif.' + CHECKS[prop])
        spec = dict(mod.SPEC)
        if args.budget:
            spec['budget_s'] = {tier: args.budget}
        return core.run_check(prop, CHECKS[prop], tier, seed, spec)

    if args.cmd == 'replay':
        with open(args.path, encoding='utf-8') as f:
            rep = json.load(f)
        core.build()
        w = rep['witness']
        drv = core.Driver(w.get('epoch', core.CLOCKS['mid-2026']), w.get('tz', 'UTC'), {'ui': True, 'rw': True})
        print('property %s signature %s' % (rep['property'], rep['signature']))
        print('reported: %s' % rep['what'])
        for op, res in zip(w.get('ops', []), drv.run(w.get('ops', []))):
            print('> %s' % json.dumps(op, ensure_ascii=False))
            print('< %s' % json.dumps(res, ensure_ascii=False))
        drv.close()
        return 0


if __name__ == '__main__':
    sys.exit(main())

"""C02 - arithmetic obeys precedence, associativity and parentheses. DESIGN.md 3.C02."""

import itertools

from . import gen_expr as ge
from . import lex
from . import gen_hostile as gh
from .core import bits2f, f2bits
from .numfmt import DEFAULT_SEP, SEP_CONFIGS

SPEC = {
    'rule': ('random expression trees (depth <= 6, <= 25 leaves) over integer / fraction / grouped / signed / suffixed literals, '
             '+ - * /, parentheses (redundant nests to depth 64), detached signs, juxtaposed literals; each tree rendered in 4 '
             'spacings and as the right-hand side of an assignment, under the 4 separator conventions; thorough adds all trees '
             'with <= 3 leaves over a 9-literal alphabet. Oracle: the same tree evaluated in IEEE doubles (bit-exact). '
             'non-trivial = the tree has at least one operator, sign, parenthesis or juxtaposition; distinct = distinct (separators, text)'),
    'min_nontrivial': 2000,
    'budget_s': {'quick': 45, 'thorough': 420},
    'assumptions': ['trees with an intermediate beyond 1e300 are dropped', 'quotient chains NUM / NUM / NUM that read as day/month/year are excluded (dates by design, C09)'],
}

VAR_NAMES = ['zq', 'qux', 'foo bar', 'wv']


def expected(tree):
    try:
        return ge.evaluate(tree)
    except ge.Overflow:
        return None


def observe(slot):
    """-> ('number', float) | ('err', msg) | ('other', repr)"""
    if slot is None:
        return ('empty', None)
    if 'err' in slot:
        return ('err', slot['err'])
    v = slot.get('v', {})
    if v.get('k') == 'number' and v.get('t') == 'Decimal':
        return ('number', bits2f(v['bits']))
    return ('other', v)


def agrees(obs, want):
    return obs[0] == 'number' and (obs[1] == want)


def render(tree, sep, spacing, rng, grouped=False, assign=None):
    toks = ge.lex_tokens(tree, sep, grouped)
    text = ge.join(toks, spacing, rng)
    if assign:
        text = assign + rng.choice([' = ', '=', ' =', '= ']) + text
    return text, toks


def shrink(drv, cops, tree, sep, spacing, assign, rng, max_runs=120, lang='en'):
    """Greedy structural shrinking; every candidate is re-run through the driver and judged
    by the same oracle. -> (tree, text, observed, want)"""
    runs = 0

    def fails(t, sp):
        nonlocal runs
        want = expected(t)
        if want is None:
            return None
        text, toks = render(t, sep, sp, rng, assign=assign)
        if ge.date_like(toks, sep):
            return None
        runs += 1
        r = drv.run(cops + [{'op': 'execute', 'lang': lang, 'text': text}])[-1]
        if 'lines' not in r or len(r['lines']) != 1:
            return (text, ('abnormal', str(r)[:200]), want)
        obs = observe(r['lines'][0])
        if agrees(obs, want):
            return None
        return (text, obs, want)

    best = fails(tree, spacing)
    if best is None:
        return None
    if assign:
        keep = assign
        assign = None
        f = fails(tree, spacing)
        if f is not None:
            best = f
        else:
            assign = keep
    cur = tree
    improved = True
    while improved and runs < max_runs:
        improved = False
        for cand in ge.shrink_candidates(cur):
            if ge.size(cand) >= ge.size(cur):
                continue
            f = fails(cand, spacing)
            if f is not None:
                cur, best, improved = cand, f, True
                break
            if runs >= max_runs:
                break
    # normalise spacing where the failure survives it
    for sp in ('single', 'none'):
        if sp != spacing and spacing == 'random':
            f = fails(cur, sp)
            if f is not None:
                best = f
                spacing = sp
                break
    return cur, best[0], best[1], best[2]


def small_trees():
    """All trees with <= 3 leaves over a 13-literal alphabet, and all double sign prefixes."""
    lits = [('lit', '0', ''), ('lit', '1', ''), ('lit', '2', ''), ('lit', '3', ''), ('lit', '7', ''), ('lit', '0.5', ''),
            ('slit', '-', '2', ''), ('lit', '10', ''), ('lit', '1.25', ''), ('slit', '-', '2', 'M'), ('lit', '0', 'G'), ('lit', '1', 'Y'), ('lit', '9', 'Z')]
    ops = '+-*/'
    for a in lits:
        yield a
        yield ('sign', '-', a)
        yield ('paren', a)
        for s1 in '+-':
            for s2 in '+-':
                yield ('sign', s1, ('sign', s2, a))
                yield ('paren', ('sign', s1, ('sign', s2, a)))
                yield ('bin', '*', ('lit', '2', ''), ('sign', s1, ('sign', s2, a)))
                yield ('bin', '-', ('lit', '2', ''), ('sign', s1, ('sign', s2, a)))
        yield ('sign', '-', ('sign', '-', ('sign', '-', a)))
    for a, b in itertools.product(lits, repeat=2):
        for op in ops:
            yield ('bin', op, a, b)
            yield ('bin', op, a, ('sign', '-', b))
            yield ('paren', ('bin', op, a, b))
            yield ('sign', '-', ('paren', ('bin', op, a, b)))
    for a, b, c in itertools.product(lits, repeat=3):
        for o1 in ops:
            for o2 in ops:
                yield ('bin', o2, ('bin', o1, a, b), c)                       # (a o1 b) o2 c, written a o1 b o2 c when precedence allows
                yield ('bin', o1, a, ('paren', ('bin', o2, b, c)))


LANGS = lex.languages()


def needs_paren_left(o1, o2):
    return o1 in '+-' and o2 in '*/'


def run_shard(ctx):
    rng = ctx.rng
    res = ctx.res
    drv = ctx.driver(rw=True)
    opts = {}
    # every small tree is evaluated in both tiers (about 45 000 trees over the 16 shards)
    exhaustive = itertools.islice(small_trees(), ctx.shard, None, ctx.nshards)
    p_exh = 0.7 if ctx.thorough() else 0.45
    shrunk = 0
    while not ctx.out_of_time():
        sep = rng.choice(SEP_CONFIGS) if rng.random() < 0.5 else DEFAULT_SEP
        cfg = {'dec': sep[0], 'thou': sep[1], 'digits': 2, 'noise': rng.random() < 0.25, 'thou_first': rng.random() < 0.5}      # both orders of the separator setters; noise: a neutral API history first (gen_hostile.config_ops)
        cops = gh.config_ops(cfg)
        ops = list(cops)
        meta = []
        # digits, operators, parentheses and magnitude suffixes are not words: the line means the same under every configured language
        lang = 'en' if rng.random() < 0.6 else rng.choice(LANGS)
        res.count('lang:' + lang)
        # one batch in ten runs on a calculator whose date patterns were replaced (set_date_rule) by month-name patterns only: there
        # no quotient chain is a date, so day/month/year-like chains are judged as arithmetic too
        month_dates_only = rng.random() < 0.1
        if month_dates_only:
            ops = [{'op': 'new_calc', 'c': 0, 'seg': True}] + gh.config_ops(cfg, 0, seg=False) + [
                {'op': 'set_date_rule', 'lang': l_, 'patterns': ['{NUMBER:day} {MONTH:month} {NUMBER:year}', '{NUMBER:day} {MONTH:month}']} for l_ in LANGS]
            cops = list(ops)
            res.count('batches_with_month_name_date_patterns_only')
        for _ in range(60):
            tree = None
            if month_dates_only and rng.random() < 0.2:
                a_, b_, c_ = rng.randint(1, 28), rng.randint(1, 12), rng.choice([1, 2, 4, 20, 2020])
                tree = ('bin', '/', ('bin', '/', ('lit', str(a_), ''), ('lit', str(b_), '')), ('lit', str(c_), ''))
                if rng.random() < 0.4:
                    tree = ('bin', rng.choice('+-'), ('lit', '1', ''), tree)
            elif rng.random() < 0.03:
                # a quotient chain that is NOT a day/month/year date (month 13..40, or a day that does not exist) is plain arithmetic
                a_, b_, c_ = rng.randint(1, 31), rng.randint(13, 40), rng.choice([1, 2, 3, 7, 20, 99, 2020, 2021])
                tree = ('bin', '/', ('bin', '/', ('lit', str(a_), ''), ('lit', str(b_), '')), ('lit', str(c_), ''))
                if rng.random() < 0.4:
                    tree = ('bin', rng.choice('+-*'), rng.choice([('lit', '5', ''), ('paren', tree)]), rng.choice([('paren', tree), ('lit', '3', '')]))
                res.count('quotient_chains_that_are_not_dates')
            if tree is None and exhaustive is not None and rng.random() < p_exh:
                tree = next(exhaustive, None)
                if tree is None:
                    exhaustive = None
                    res.count('shards_that_finished_their_share_of_all_small_trees')
                elif tree[0] == 'bin' and tree[2][0] == 'bin' and needs_paren_left(tree[2][1], tree[1]):
                    tree = ('bin', tree[1], ('paren', tree[2]), tree[3])
                if tree is not None:
                    res.count('exhaustive_small_trees')
            if tree is None:
                tree = ge.gen_tree(rng, rng.randint(1, 6), opts)
                if rng.random() < 0.05:
                    tree = ge._juxt([ge.gen_literal(rng) for _ in range(rng.randint(2, 5))])
                if ge.leaves(tree) > 25:
                    continue
            want = expected(tree)
            if want is None:
                res.count('dropped_overflow')
                continue
            cls = ge.classes(tree)
            grouped = rng.random() < 0.3
            variants = [(sp, None) for sp in ge.SPACINGS]
            variants.append((rng.choice(ge.SPACINGS), rng.choice(VAR_NAMES)))
            for sp, assign in variants:
                text, toks = render(tree, sep, sp, rng, grouped, assign)
                if ge.date_like(toks, sep) and not month_dates_only:
                    res.count('excluded_date_like')
                    continue
                ops.append({'op': 'execute', 'lang': lang, 'text': text})
                meta.append((len(ops) - 1, tree, want, text, sp, assign, cls))
        if month_dates_only:
            ops.append({'op': 'new_calc', 'c': 0})            # the next batch gets a default calculator again
        rs = drv.run(ops)
        for (idx, tree, want, text, sp, assign, cls) in meta:
            r = rs[idx]
            res.cases += 1
            res.note_rw(r)
            nontrivial = tree[0] not in ('lit',)
            if nontrivial:
                res.distinct.add(sep, text)
            for c in cls:
                res.count('class:' + c)
            if assign:
                res.count('class:assignment-rhs')
            if 'lines' in r and len(r['lines']) == 1:
                obs = observe(r['lines'][0])
            else:
                obs = ('abnormal', str({k: r[k] for k in r if k in ('panic', 'hang', 'crash', 'status')})[:300])
            if agrees(obs, want):
                res.count('agree')
                if res.cases % 997 == 0:
                    res.sample({'separators': sep, 'text': text, 'model_value': repr(want), 'observed_bits': f2bits(obs[1])})
                continue
            res.count('disagree')
            sig_text, w_obs, w_tree, w_text = ge.abstract(text), obs, tree, text
            if shrunk < 25:
                shrunk += 1
                try:
                    sh = shrink(drv, cops, tree, sep, sp, assign, rng, lang=lang)
                except Exception:
                    sh = None
                if sh:
                    w_tree, w_text, w_obs, want2 = sh
                    sig_text = ge.abstract(w_text)
                    want = want2
            else:
                # unshrunk: classify by the generator's classes only
                sig_text = 'unshrunk:' + '+'.join(sorted(cls))[:80]
            res.violation('arith:' + sig_text + ('' if lang == 'en' else ':' + lang),
                          '%r should evaluate to %r, observed %s' % (w_text, want, (repr(w_obs[1]) if w_obs[0] == 'number' else w_obs)),
                          {'config': cfg, 'lang': lang, 'text': w_text, 'original_text': text, 'tree': repr(w_tree), 'expected': repr(want),
                           'observed': w_obs, 'ops': cops + [{'op': 'execute', 'lang': lang, 'text': w_text}]})

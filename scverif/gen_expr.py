"""Arithmetic expression trees, their model value (IEEE doubles) and their renderings.

Tree nodes (tuples):
  ('lit', canonical, suffix)      canonical: unsigned digits with optional '.fraction'; suffix '' or one of kKMGTPZY
  ('slit', sign, canonical, suffix)   a literal with an attached sign ('-' or '+')
  ('sign', s, node)               a detached sign prefix s in '+-' in front of node
  ('paren', node)
  ('bin', op, left, right)        op in '+-*/'
  ('juxt', [nodes])               operands written side by side (added)
"""

from .numfmt import render_literal

SUFFIX = {'': 1.0, 'k': 1e3, 'K': 1e3, 'M': 1e6, 'G': 1e9, 'T': 1e12, 'P': 1e15, 'Z': 1e18, 'Y': 1e21}


class Overflow(Exception):
    pass


def lit_value(canonical, suffix):
    v = float(canonical)
    if suffix:
        v = v * SUFFIX[suffix]
    return v


def div(a, b):
    if b == 0.0:
        return 0.0
    q = a / b
    if q != q or q in (float('inf'), float('-inf')):
        return 0.0
    return q


def evaluate(node):
    """The model value of a tree (a Python float is an IEEE double)."""
    k = node[0]
    if k == 'lit':
        v = lit_value(node[1], node[2])
    elif k == 'val':
        v = node[1]() if callable(node[1]) else node[1]
    elif k == 'slit':
        v = lit_value(node[2], node[3])
        if node[1] == '-':
            v = -v
    elif k == 'sign':
        v = evaluate(node[2])
        if node[1] == '-':
            v = -v
    elif k == 'paren':
        v = evaluate(node[1])
    elif k == 'juxt':
        v = None
        for ch in node[1]:
            x = evaluate(ch)
            v = x if v is None else v + x
    elif k == 'bin':
        op = node[1]
        # a juxtaposition that is an operand of '+' is summed left to right at token level
        if op == '+':
            parts = []
            _flatten_plus(node, parts)
            v = None
            for x in parts:
                v = x if v is None else v + x
        else:
            a = evaluate(node[2])
            b = evaluate(node[3])
            if op == '-':
                v = a - b
            elif op == '*':
                v = a * b
            else:
                v = div(a, b)
    else:
        raise ValueError(k)
    if abs(v) > 1e300:
        raise Overflow()
    return v


def _flatten_plus(node, out):
    """left-to-right addends of a '+' chain, juxtapositions spliced in"""
    if node[0] == 'bin' and node[1] == '+':
        _flatten_plus(node[2], out)
        r = node[3]
        if r[0] == 'juxt':
            for ch in r[1]:
                out.append(evaluate(ch))
        else:
            out.append(evaluate(r))
    elif node[0] == 'juxt':
        for ch in node[1]:
            out.append(evaluate(ch))
    else:
        out.append(evaluate(node))


# ------------------------------------------------------------------ lexical form

def lex_tokens(node, sep, grouped=False, out=None):
    """-> list of (kind, text) with kind in num | op | lp | rp | sign(detached) ; an attached
    sign is part of the num text."""
    if out is None:
        out = []
    k = node[0]
    if k == 'lit':
        out.append(('num', render_literal(node[1], sep, grouped) + node[2]))
    elif k == 'val':
        out.append(('var', node[2]))
    elif k == 'slit':
        out.append(('num', node[1] + render_literal(node[2], sep, grouped) + node[3]))
    elif k == 'sign':
        out.append(('sign', node[1]))
        lex_tokens(node[2], sep, grouped, out)
    elif k == 'paren':
        out.append(('lp', '('))
        lex_tokens(node[1], sep, grouped, out)
        out.append(('rp', ')'))
    elif k == 'juxt':
        for ch in node[1]:
            lex_tokens(ch, sep, grouped, out)
    elif k == 'bin':
        lex_tokens(node[2], sep, grouped, out)
        out.append(('op', node[1]))
        lex_tokens(node[3], sep, grouped, out)
    return out


def must_space(a, b):
    """Is a blank mandatory between lexical tokens a and b (otherwise the text would read
    as a different expression)?"""
    ka, ta = a
    kb, tb = b
    if ka in ('num', 'var') and kb in ('num', 'var'):
        return True                       # juxtaposed literals / names
    if ka == 'sign' and kb == 'var':
        return False
    if ka == 'sign' and kb == 'num':
        return True                       # a detached sign stays detached
    if ka == 'sign' and kb == 'sign':
        return True
    if ka == 'op' and kb == 'sign':
        return False
    if ka == 'num' and kb == 'lp' and ta[-1].isalpha():
        return False
    return False


def join(tokens, spacing, rng=None):
    """spacing: 'none' | 'single' | 'random' | 'inside' (blanks just inside parentheses)"""
    s = ''
    for i, t in enumerate(tokens):
        if i:
            prev = tokens[i - 1]
            need = must_space(prev, t)
            if spacing == 'single':
                gap = ' '
            elif spacing == 'none':
                gap = ' ' if need else ''
            elif spacing == 'inside':
                gap = ' ' if (need or prev[0] == 'lp' or t[0] == 'rp') else ''
            else:
                gap = ' ' * rng.choice([0, 0, 1, 1, 1, 2, 3])
                if need and not gap:
                    gap = ' '
            # an operator directly followed by a detached sign must not fuse into the literal:
            # ('op','-') ('num','-2') with no gap reads '--2', fine; ('sign') always has a blank after it
            s += gap
        s += t[1]
    return s


SPACINGS = ['none', 'single', 'random', 'inside']


def date_like(tokens, sep):
    """Does the token sequence contain NUM / NUM / NUM (no parenthesis in between) whose
    truncated values could be read as day/month/year? Such lines are dates by design."""
    dec, thou = sep

    def val(t):
        s = t
        letters = ''
        while s and s[-1].isalpha():
            letters = s[-1] + letters
            s = s[:-1]
        if thou:
            s = s.replace(thou, '')
        if dec:
            s = s.replace(dec, '.')
        try:
            return float(s) * SUFFIX.get(letters, 1.0)
        except ValueError:
            return None
    n = len(tokens)
    for i in range(n - 4):
        w = tokens[i:i + 5]
        if w[0][0] in ('num', 'var') and w[1] == ('op', '/') and w[2][0] in ('num', 'var') and w[3] == ('op', '/') and w[4][0] in ('num', 'var'):
            if w[0][0] == 'var' or w[2][0] == 'var':
                return True                    # a variable holding a number also matches the date pattern
            d, m = val(w[0][1]), val(w[2][1])
            if d is None or m is None:
                return True
            if 1 <= int(d) <= 31 and 1 <= int(m) <= 12:
                return True
    return False


# ------------------------------------------------------------------ generation

INT_POOL = ['0', '1', '2', '3', '5', '7', '10', '12', '13', '24', '31', '60', '99', '100', '365', '1000', '1024', '2020', '86400', '123456', '1234567', '98765432']
FRAC_POOL = ['0.5', '1.5', '2.25', '0.1', '0.2', '0.3', '3.14159', '10.75', '99.99', '0.001', '1234.5678', '1000000.01', '0.7', '33.333']


def gen_literal(rng, allow_suffix=True, allow_sign=True):
    r = rng.random()
    if r < 0.55:
        canon = rng.choice(INT_POOL) if rng.random() < 0.7 else str(rng.randint(0, 10**rng.randint(1, 9)))
    else:
        canon = rng.choice(FRAC_POOL) if rng.random() < 0.6 else '%d.%s' % (rng.randint(0, 10**rng.randint(0, 6)), ''.join(rng.choice('0123456789') for _ in range(rng.randint(1, 5))))
    suffix = ''
    if allow_suffix and rng.random() < 0.12:
        suffix = rng.choice('kKMGTPZY')
        if suffix in 'PZY' and len(canon) > 6:
            suffix = 'k'
    if allow_suffix and rng.random() < 0.04:
        # a signed or zero literal with a magnitude suffix, M and G being also unit words (metre, gram)
        return ('slit', rng.choice('-+-'), rng.choice(['0', '2', '1.5', canon]), rng.choice('MGkMGT'))
    if allow_sign and rng.random() < 0.15:
        return ('slit', rng.choice('-+-'), canon, suffix)
    return ('lit', canon, suffix)


def gen_tree(rng, depth, opts):
    """opts: dict of generation switches (juxt, detached, suffix, group_sign, juxt_groups, deep_paren)"""
    if depth <= 0 or rng.random() < 0.25:
        if opts.get('leaf') and rng.random() < opts.get('leaf_p', 0.5):
            leaf = opts['leaf'](rng)
        else:
            leaf = gen_literal(rng, opts.get('suffix', True))
        if opts.get('detached', True) and rng.random() < 0.12:
            node = ('sign', rng.choice('-+-'), leaf)
            if rng.random() < 0.25:
                node = ('sign', rng.choice('-+-'), node)          # the operand of a sign may itself carry a sign: - - 3
            return node
        return leaf
    r = rng.random()
    if r < 0.62:
        op = rng.choice('+-*/+-*')
        left = gen_tree(rng, depth - 1, opts)
        right = gen_tree(rng, depth - 1, opts)
        # precedence / associativity: parenthesise children that would otherwise re-associate
        left = _wrap(left, op, 'L')
        right = _wrap(right, op, 'R')
        if opts.get('juxt', True) and rng.random() < 0.08:
            # juxtaposition only where both readings coincide: operand of '+' or left operand of '-'
            j = _juxt([gen_tree(rng, 0, opts) for _ in range(rng.randint(2, 3))])
            if op == '+':
                if rng.random() < 0.5:
                    left = j
                else:
                    right = j
            elif op == '-':
                left = j
        return ('bin', op, left, right)
    if r < 0.86:
        inner = gen_tree(rng, depth - 1, opts)
        node = ('paren', inner)
        if opts.get('deep_paren', True) and rng.random() < 0.2:
            for _ in range(rng.choice([1, 2, 2, 3, 5, 8, 16, 64])):
                node = ('paren', node)
        if opts.get('group_sign', True) and rng.random() < 0.12:
            node = ('sign', rng.choice('-+-'), node)
            if rng.random() < 0.2:
                node = ('sign', rng.choice('-+-'), node)
        return node
    if opts.get('juxt', True) and rng.random() < 0.5:
        j = _juxt([gen_tree(rng, 0, opts) for _ in range(rng.randint(2, 4))])
        if opts.get('juxt_groups', True) and rng.random() < 0.25:
            j[1][rng.randrange(len(j[1]))] = ('paren', gen_tree(rng, 1, opts))
        return ('paren', j)
    return gen_tree(rng, depth - 1, opts)


def _juxt(items):
    """A run of juxtaposed literals. Only '+' signs may be attached: 'a -b c' could be read as
    a - (b + c) or as a + (-b) + c, and the statement does not say which."""
    out = []
    for it in items:
        it = _atom(it)
        if it[0] == 'slit' and it[1] == '-':
            it = ('lit', it[2], it[3])
        out.append(it)
    return ('juxt', out)


def _atom(node):
    """juxtaposed items are literals (signed or not); a detached sign would turn the run into a subtraction"""
    if node[0] == 'sign':
        return node[2] if node[2][0] in ('lit', 'slit', 'val') else ('lit', '1', '')
    return node


def _prec(node):
    if node[0] == 'bin':
        return 1 if node[1] in '+-' else 2
    if node[0] == 'juxt':
        return 1
    return 3


def _wrap(child, op, side):
    p = 1 if op in '+-' else 2
    cp = _prec(child)
    need = False
    if cp < p:
        need = True
    elif cp == p and side == 'R' and child[0] in ('bin', 'juxt'):
        need = True          # keep the tree's own association: a - (b - c), a / (b * c)
    if child[0] == 'sign' and side == 'R' and False:
        need = True
    return ('paren', child) if need else child


def classes(node, out=None, ctx='top'):
    """Case classes present in a tree (for evidence and signatures)."""
    if out is None:
        out = set()
    k = node[0]
    if k == 'val':
        out.add('variable-use')
    elif k == 'lit' or k == 'slit':
        if node[-1]:
            out.add('suffix-' + node[-1])
        if k == 'slit':
            out.add('attached-sign')
        if '.' in node[-2]:
            out.add('fraction')
    elif k == 'sign':
        inner = node[2][0]
        if inner == 'sign':
            out.add('sign-before-sign')
        elif inner == 'paren':
            out.add('detached-sign-before-group')
        elif inner == 'slit':
            out.add('detached-sign-before-signed-literal')
        else:
            out.add('detached-sign-' + ctx)
        classes(node[2], out, ctx)
    elif k == 'paren':
        d = 1
        n = node[1]
        while n[0] == 'paren':
            d += 1
            n = n[1]
        if d >= 3:
            out.add('paren-depth>=3')
        elif d == 2:
            out.add('paren-depth-2')
        else:
            out.add('paren')
        classes(n, out, 'after-lp')
    elif k == 'juxt':
        out.add('juxtaposition')
        if any(ch[0] == 'paren' for ch in node[1]):
            out.add('juxtaposed-groups')
        for ch in node[1]:
            classes(ch, out, ctx)
    elif k == 'bin':
        out.add('op' + node[1])
        classes(node[2], out, ctx)
        classes(node[3], out, 'after-op')
    return out


def leaves(node):
    k = node[0]
    if k in ('lit', 'slit', 'val'):
        return 1
    if k == 'sign':
        return leaves(node[2])
    if k == 'paren':
        return leaves(node[1])
    if k == 'juxt':
        return sum(leaves(c) for c in node[1])
    return leaves(node[2]) + leaves(node[3])


# ------------------------------------------------------------------ shrinking

def fix_parens(node):
    """Re-insert the parentheses a tree needs so that its rendering reads as the tree."""
    k = node[0]
    if k in ('lit', 'slit', 'val'):
        return node
    if k == 'sign':
        inner = fix_parens(node[2])
        if inner[0] in ('bin', 'juxt', 'sign'):
            inner = ('paren', inner)
        return ('sign', node[1], inner)
    if k == 'paren':
        return ('paren', fix_parens(node[1]))
    if k == 'juxt':
        items = []
        for ch in node[1]:
            ch = fix_parens(ch)
            if ch[0] in ('bin', 'juxt', 'sign'):
                ch = ('paren', ch)
            if ch[0] == 'slit' and ch[1] == '-':
                ch = ('lit', ch[2], ch[3])
            items.append(ch)
        return ('juxt', items)
    left = _wrap(fix_parens(node[2]), node[1], 'L')
    right = _wrap(fix_parens(node[3]), node[1], 'R')
    if right[0] == 'juxt' and node[1] != '+':
        right = ('paren', right)
    if left[0] == 'juxt' and node[1] in '*/':
        left = ('paren', left)
    return ('bin', node[1], left, right)


def shrink_candidates(node):
    for c in _shrink_candidates(node):
        yield fix_parens(c)


def _shrink_candidates(node):
    """Smaller trees, most aggressive first."""
    k = node[0]
    if k == 'val':
        return
    if k in ('lit', 'slit'):
        for c in ('1', '2', '3'):
            if k == 'lit' and (node[1] != c or node[2]):
                yield ('lit', c, '')
            if k == 'slit' and (node[2] != c or node[3]):
                yield ('slit', node[1], c, '')
        if k == 'slit':
            yield ('lit', node[2], node[3])
        return
    if k == 'sign':
        yield node[2]
        for c in _shrink_candidates(node[2]):
            yield ('sign', node[1], c)
        return
    if k == 'paren':
        yield node[1]
        yield ('lit', '1', '')
        for c in _shrink_candidates(node[1]):
            yield ('paren', c)
        return
    if k == 'juxt':
        items = node[1]
        if len(items) > 2:
            for i in range(len(items)):
                yield ('juxt', items[:i] + items[i + 1:])
        for i, it in enumerate(items):
            for c in _shrink_candidates(it):
                yield ('juxt', items[:i] + [c] + items[i + 1:])
        return
    if k == 'bin':
        yield node[2]
        yield node[3]
        yield ('lit', '1', '')
        for c in _shrink_candidates(node[2]):
            yield ('bin', node[1], c, node[3])
        for c in _shrink_candidates(node[3]):
            yield ('bin', node[1], node[2], c)


def size(node):
    k = node[0]
    if k == 'val':
        return 2
    if k in ('lit', 'slit'):
        return 1 + len(node[-2]) + (1 if node[-1] else 0) + (1 if k == 'slit' else 0)
    if k in ('sign',):
        return 1 + size(node[2])
    if k == 'paren':
        return 1 + size(node[1])
    if k == 'juxt':
        return 1 + sum(size(c) for c in node[1])
    return 1 + size(node[2]) + size(node[3])


def abstract(text):
    """Signature form of a rendered line: literals abstracted to N, suffix letters kept."""
    import re
    return re.sub(r'[0-9]+([.,][0-9]+)*', 'N', text)

"""Number literals and number printing, independent of the implementation.

A separator configuration is a pair (dec, thou). Literals are built from a *canonical*
string ('-1234567.25', digits with an optional '.' fraction) so that the value under
test is exactly float(canonical)."""

import decimal
from decimal import Decimal, ROUND_HALF_EVEN, ROUND_HALF_UP, ROUND_FLOOR

decimal.getcontext().prec = 1200

SEP_CONFIGS = [(',', '.'), ('.', ','), ('.', ''), (',', '')]   # (decimal, thousands)
DEFAULT_SEP = (',', '.')


def group3(digits, sep):
    if not sep or len(digits) <= 3:
        return digits
    out = []
    while len(digits) > 3:
        out.append(digits[-3:])
        digits = digits[:-3]
    out.append(digits)
    return sep.join(reversed(out))


def render_literal(canonical, sep, grouped=False):
    """canonical: '[-+]digits[.digits]' -> the literal in the convention `sep`."""
    dec, thou = sep
    sign = ''
    body = canonical
    if body[0] in '+-':
        sign, body = body[0], body[1:]
    if '.' in body:
        ip, fp = body.split('.', 1)
    else:
        ip, fp = body, None
    if grouped and thou:
        ip = group3(ip, thou)
    return sign + ip + ((dec + fp) if fp is not None else '')


def canon_of_float(x):
    """A canonical literal whose float value is exactly x (finite, not tiny): uses repr,
    expanded without exponent."""
    d = Decimal(repr(x))
    s = format(d, 'f')
    return s


def exact_decimal_string(x):
    """The exact decimal expansion of the double x."""
    return format(Decimal(x), 'f')


# ------------------------------------------------------------------ printing oracle

def _quant(d, digits, mode):
    q = Decimal(1).scaleb(-digits)
    return d.quantize(q, rounding=mode)


def expected_prints(x, sep, digits, remove_zero, rounding=True):
    """All acceptable prints of the double x with rounding on -> set of strings."""
    dec, thou = sep
    d = Decimal(x)
    outs = set()
    for mode in (ROUND_HALF_EVEN, ROUND_HALF_UP):
        r = _quant(abs(d), digits, mode)
        s = format(r, 'f')
        if '.' in s:
            ip, fp = s.split('.')
        else:
            ip, fp = s, ''
        body = group3(ip, thou)
        all_zero = (fp.strip('0') == '')
        if fp and not (remove_zero and all_zero):
            body += dec + fp
        is_zero = (r == 0)
        if x < 0:
            outs.add('-' + body)
            if is_zero:
                outs.add(body)
        else:
            outs.add(body)
    return outs


def check_print(x, out, sep, digits, remove_zero, rounding=True):
    """-> None if `out` is an acceptable print of x, else a short reason."""
    dec, thou = sep
    if rounding:
        exp = expected_prints(x, sep, digits, remove_zero)
        if out in exp:
            return None
        return 'expected one of %s' % sorted(exp)
    # rounding off: the statement gives no digit count. Demand sign, grouping, separator,
    # and digits that read back to exactly x (at most 17 significant digits).
    s = out
    neg = s.startswith('-')
    if neg:
        s = s[1:]
    if neg != (x < 0) and x != 0:
        return 'sign'
    if dec and dec in s:
        ip, fp = s.split(dec, 1)
    else:
        ip, fp = s, ''
    plain = ip.replace(thou, '') if thou else ip
    if not plain.isdigit() or (fp and not fp.isdigit()):
        return 'not a number in this convention'
    if group3(plain, thou) != ip:
        return 'integer part not grouped in threes'
    if fp == '' and dec and s.endswith(dec):
        return 'dangling decimal separator'
    try:
        back = float(plain + ('.' + fp if fp else ''))
    except ValueError:
        return 'unreadable'
    sig = (plain + fp).lstrip('0').rstrip('0')
    if back != abs(x):
        # removal of an all-zero fraction cannot apply here (a non-zero fraction was lost)
        return 'digits read back as %r, value is %r' % (back, abs(x))
    if len(sig) > 17:
        return 'more than 17 significant digits'
    if remove_zero and fp and fp.strip('0') == '':
        return 'zero fraction not removed'
    return None


def parse_print(out, sep):
    """Read a printed number back (model of the reader) -> float or None"""
    dec, thou = sep
    s = out
    if thou:
        s = s.replace(thou, '')
    if dec:
        s = s.replace(dec, '.')
    try:
        return float(s)
    except ValueError:
        return None

"""C16 - blanks, comments and letter case of keywords never change a value. DESIGN.md 3.C16."""

from . import gen_expr as ge
from . import lex, mon
from .numfmt import DEFAULT_SEP

SPEC = {
    'rule': ('base lines from phrase templates of every feature (money conversion, dates and date arithmetic, times and zones, percentage '
             'phrases, unit conversion, unix time, bases, "at", variables, arithmetic trees, durations) whose words are tagged by class; '
             'rewritings: every existing blank widened to 1-6 blanks, blanks added at both ends, a "#" comment appended whose text is drawn '
             'from the lexicon itself (month names, numbers, currency codes, keywords, a full evaluable line), and the words of the classes '
             'named by the statement (currency codes, month names, zone names, connectives, variable names) re-cased (lower, upper, title, '
             'random), among them names containing a written operator word and the literal words of rules an application added with capitals in their patterns; the value of the rewritten line must equal the value of the base line; blank-only and comment-only lines must give an '
             'empty slot. Only base lines that evaluate to a value are used. non-trivial = a compared pair; distinct = distinct (base, rewriting)'),
    'min_nontrivial': 3000,
    'budget_s': {'quick': 35, 'thorough': 360},
    'assumptions': ['blanks are only widened where one exists', 'duration words, unit names and base names are matched case-sensitively by design '
                    'and are not in the statement\'s list: they are not re-cased'],
}

RECASE = {'currency', 'month', 'zone', 'conn', 'var'}
AMTS = ['1', '5', '10', '12,5', '99', '250', '1000', '3', '42']
SUFFIXED = ['2k', '1,5k', '3M', '250k', '10K']          # an amount with a magnitude suffix, followed by a blank and the currency


def T(text, cls='fixed'):
    return (text, cls)


CURRENCY_ALIASES = ['avro', 'dollar', 'euro', 'kroner', 'lef', 'leva', 'tl', 'лв']       # configured alias words (config.json currency_alias)
# names with letters whose lower-casing changes the byte length (İ), written in capitals so that every re-casing is the same name
VAR_NAMES = ['zq', 'wv rate', 'mk total', 'İZMİR', 'BİTİŞ', 'ÖĞLE ARASI', 'ÇAY', 'İŞ GÜNÜ',
             'total sum', 'times visited', 'add on', 'toplam fiyat', 'minus side',
             'ΦΟΡΟΣ', 'ΜΙΣΘΟΣ ΜΗΝΑ', 'ΚΟΣΤΟΣ']          # ... and Greek words ending in sigma (two lower-case forms)          # ... and names with a word that is also a written operator
# rules an application added with patterns whose literal words carry capitals: their connective words in every letter case
APP_RULES = [('{NUMBER:part} OUT OF {NUMBER:total}', ['out', 'of']), ('{NUMBER:part} Per {NUMBER:total}', ['per']), ('{NUMBER:part} vErSuS {NUMBER:total}', ['versus']),
             ('{NUMBER:part} ÜZERİNDEN {NUMBER:total}', ['ÜZERİNDEN'])]
APP_RULE_OPS = ([{'op': 'new_calc', 'c': 2, 'seg': True}] +
                [{'op': 'add_rule', 'c': 2, 'lang': lang_, 'patterns': [pat], 'spec': {'name': 'app%d' % k_, 'kind': 'encode', 'weights': {'part': 100.0, 'total': 1.0}}}
                 for k_, (pat, _) in enumerate(APP_RULES) for lang_ in ('en',)])
TR_DUR = ['gün', 'hafta', 'ay', 'yıl']


def var_words(name):
    """the words of a variable name; a word with 'İ' is not re-cased: its lower case is 'i' + a combining dot (U+0307), which is
    not what a user types as the other case of that letter, and the statement cannot be read as demanding it"""
    return [T(w, 'fixed' if 'İ' in w else 'var') for w in name.split()]


def gen_base_tr(rng):
    """Turkish base lines: month-name dates, date arithmetic, dates bound to names with multi-byte capitals"""
    lm, sm = lex.months('tr')
    months = sorted(lm) + sorted(sm)
    date = [T(str(rng.randint(1, 28))), T(rng.choice(months), 'month'), T(str(rng.choice([2019, 2020, 2021, 2024, 1999])))]
    k = rng.randrange(4)
    if k == 0:
        return [date]
    if k == 1:
        return [date + [T(rng.choice('+-')), T(str(rng.randint(1, 25))), T(rng.choice(TR_DUR))]]
    nw = var_words(rng.choice(VAR_NAMES))
    if k == 2:
        return [nw + [T('=')] + date]
    return [nw + [T('=')] + date, nw + [T('+'), T(str(rng.randint(1, 20))), T('gün')]]


def gen_base(rng, today_year):
    """-> list of lines, each a list of (word, class) joined by single blanks"""
    codes = lex.rated_codes()
    if rng.random() < 0.25:
        codes = CURRENCY_ALIASES
    # WST and TMT are zone names and currency codes at once; behind a clock time they are zones, in whatever letter case
    zones = sorted(lex.admissible_zones('en')) + ['WST', 'TMT'] * 8
    lm, sm = lex.months('en')
    months = sorted(lm) + sorted(sm)
    k = rng.randrange(16)
    a = rng.choice(AMTS)
    if k == 0:
        if rng.random() < 0.3:
            a = rng.choice(SUFFIXED)
            form = rng.randrange(3)
            if form == 0:
                return [[T(a), T(rng.choice(codes), 'currency')]]
            if form == 1:
                return [[T(a), T(rng.choice(['$', '€', '₺']))]]
        return [[T(a), T(rng.choice(codes), 'currency'), T(rng.choice(['to', 'as', 'in', 'into']), 'conn'), T(rng.choice(codes), 'currency')]]
    if k == 1:
        line = [T(str(rng.randint(1, 28))), T(rng.choice(months), 'month'), T(str(rng.choice([2019, 2020, 2021, 2024, 1999])))]
        if rng.random() < 0.5:
            line += [T(rng.choice('+-')), T(str(rng.randint(1, 25))), T(rng.choice(['days', 'day', 'weeks', 'months', 'years']))]
        return [line]
    if k == 2:
        # 'Month day, year': the comma is a token of its own - blanks may also be inserted in front of it
        return [[T(rng.choice(months), 'month'), T(str(rng.randint(1, 28))), T(',', 'glued'), T(str(rng.choice([2019, 2020, 2021])))]]
    if k == 3:
        t = '%d:%02d' % (rng.randint(0, 23), rng.randint(0, 59))
        line = [T(t), T(rng.choice(zones), 'zone')]
        if rng.random() < 0.6:
            line += [T(rng.choice(['to', 'as', 'in', 'into']), 'conn'), T(rng.choice(zones), 'zone')]
        return [line]
    if k == 4:
        w = rng.choice(['of', 'on', 'off'])
        x = [T(a)] if rng.random() < 0.5 else [T(a if rng.random() < 0.7 else rng.choice(SUFFIXED)), T(rng.choice(codes), 'currency')]
        p = [T('%d%%' % rng.randint(1, 150))]
        return [(p + [T(w, 'conn')] + x) if rng.random() < 0.5 else (x + [T(w, 'conn')] + p)]
    if k == 5:
        if rng.random() < 0.5:
            return [[T(a), T('is', 'conn'), T('what', 'conn'), T('%'), T('of', 'conn'), T(rng.choice(AMTS[1:]))]]
        return [[T(a), T('is', 'conn'), T('%d%%' % rng.randint(1, 99)), T('of', 'conn'), T('what', 'conn')]]
    if k == 6:
        u = [('km', 'mile'), ('kg', 'lb'), ('gb', 'mb'), ('inch', 'cm'), ('yard', 'ft'), ('tonne', 'kg'), ('mile', 'km')]
        s_, t = rng.choice(u)
        return [[T(a), T(s_), T(rng.choice(['to', 'as', 'into']), 'conn'), T(t)]]
    if k == 7:
        if rng.random() < 0.5:
            return [[T(str(rng.randint(0, 2 * 10**9))), T(rng.choice(['to', 'as']), 'conn'), T('date')]]
        return [[T(str(rng.randint(1, 28))), T(rng.choice(months), 'month'), T('2021'), T(rng.choice(['to', 'as']), 'conn'), T('unix')]]
    if k == 8:
        return [[T(str(rng.randint(0, 65535))), T(rng.choice(['to', 'as']), 'conn'), T(rng.choice(['hex', 'binary', 'octal']))]]
    if k == 9:
        return [[T(str(rng.randint(1, 28))), T(rng.choice(months), 'month'), T('2021'), T('at', 'conn'), T('%d:%02d' % (rng.randint(0, 23), rng.randint(0, 59)))]]
    if k == 10:
        nw = var_words(rng.choice(VAR_NAMES))
        lines = [nw + [T('='), T(a)]]
        if rng.random() < 0.5:
            lines.append(nw + [T('='), T(rng.choice(AMTS[1:]))])          # bound again (in a re-cased variant: in another spelling)
        return lines + [nw + [T(rng.choice('+*-')), T(rng.choice(AMTS))]]
    if k in (14, 15):
        # a name with multi-byte capitals in front of a month-name date on the same line
        nw = var_words(rng.choice(VAR_NAMES))
        date = [T(str(rng.randint(1, 28))), T(rng.choice(months), 'month'), T(str(rng.choice([2019, 2020, 2021, 2024])))]
        if k == 14:
            return [nw + [T('=')] + date]
        return [nw + [T('=')] + date, nw + [T(rng.choice('+-')), T(str(rng.randint(1, 25))), T(rng.choice(['days', 'weeks']))]]
    if k == 11:
        tree = ge.gen_tree(rng, rng.randint(1, 3), {'suffix': False, 'deep_paren': False, 'group_sign': False, 'detached': False, 'juxt': False})
        toks = ge.lex_tokens(tree, DEFAULT_SEP)
        return [[T(t) for _, t in toks]]
    if k == 12:
        return [[T(str(rng.randint(1, 500))), T(rng.choice(['hours', 'minutes', 'days'])), T(str(rng.randint(1, 59))), T(rng.choice(['minutes', 'seconds'])),
                 T(rng.choice(['as', 'to']), 'conn'), T(rng.choice(['minutes', 'seconds', 'hours']))]]
    t1 = '%d:%02d' % (rng.randint(0, 23), rng.randint(0, 59))
    t2 = '%d:%02d' % (rng.randint(0, 23), rng.randint(0, 59))
    return [[T(t1), T('to', 'conn'), T(t2)]]


def recase_word(rng, w):
    k = rng.randrange(4)
    if 'Σ' in w.upper():
        k = rng.randrange(3)          # letter-by-letter re-casing would write a non-final sigma at the end of a word: not the other case of that word
    if k == 0:
        return w.lower()
    if k == 1:
        return w.upper()
    if k == 2:
        return w[:1].upper() + w[1:].lower()
    return ''.join(rng.choice([c.lower(), c.upper()]) for c in w)


def comment_text(rng):
    lm, sm = lex.months('en')
    pool = sorted(lm) + ['12', '5 + 3', 'usd', 'to', 'march 2020', '10 usd to try', '15% of 200', '= 7', 'EST', 'x = 1', '2 hours', '#', 'çay', '', '0x10', '5 march 2020',
                                 '[NUMBER:7]', 'VAT is [PERCENT:18] here', 'pattern: {NUMBER:value} {TEXT:type:km}', '[MONEY:5;usd] per item', '{NUMBER:n}', '[VAT:20]']
    return '#' + rng.choice(['', ' ']) + rng.choice(pool)


def render(rng, lines, mode):
    """mode: 'base' | 'blanks' | 'comment' | 'case' | 'all'"""
    out = []
    for line in lines:
        s_ = ''
        for i, (w, cls) in enumerate(line):
            if i and cls == 'glued':
                s_ += ' ' * (rng.randint(0, 3) if mode in ('blanks', 'all') else 0)      # no blank in the base line, 0-3 in the widened one
            elif i:
                s_ += ' ' * (rng.randint(1, 6) if mode in ('blanks', 'all') else 1)
            if mode in ('case', 'all') and cls in RECASE:
                w = recase_word(rng, w)
            s_ += w
        if mode in ('blanks', 'all'):
            s_ = ' ' * rng.randint(0, 4) + s_ + ' ' * rng.randint(0, 4)
        if mode in ('comment', 'all'):
            s_ += rng.choice([' ', '  ', ' ']) + comment_text(rng)
        out.append(s_)
    return '\n'.join(out)


def value(slot):
    if slot is None or 'v' not in slot:
        return None
    v = dict(slot['v'])
    v.pop('names', None)
    return v


def app_rules(ctx, drv, cfg):
    """the connective words of rules the application added (pattern words written with capitals) in every letter case"""
    rng, res = ctx.rng, ctx.res
    cases = []
    for _ in range(12):
        pat, words = rng.choice(APP_RULES)
        x, y = rng.randint(1, 99), rng.randint(1, 99)
        line = [T(str(x))] + [T(w, 'fixed' if 'İ' in w else 'conn') for w in words] + [T(str(y))]
        if 'İ' in pat:
            base = render(rng, [line], 'base')
            cases.append((base, render(rng, [line], 'blanks'), 100.0 * x + y))
        else:
            base = render(rng, [line], 'base')
            for m in ('case', 'all'):
                cases.append((base, render(rng, [line], m), 100.0 * x + y))
    cops = APP_RULE_OPS + mon.gh.config_ops(cfg, c=2, seg=False)
    ops = cops + [{'op': 'execute', 'c': 2, 'lang': 'en', 'text': t} for b_, v_, _ in cases for t in (b_, v_)]
    rs = drv.run(ops)[len(cops):]
    for k, (base, var, want) in enumerate(cases):
        bslot, vslot = mon.slot0(rs[2 * k]), mon.slot0(rs[2 * k + 1])
        res.cases += 1
        res.count('class:variant:case-of-application-rule-words')
        res.distinct.add('app', base, var)
        if mon.kind(bslot) == 'number' and mon.fval(bslot) == want and value(vslot) == value(bslot):
            res.count('ok')
        else:
            res.violation('rewrite:case:application-rule-words', 'with the rule patterns %r added by the application, %r = %s and %r = %s (the rule gives %r)' % (
                [p_ for p_, _ in APP_RULES], base, mon.describe(bslot), var, mon.describe(vslot), want),
                {'config': cfg, 'lang': 'en', 'text': var, 'base': base,
                 'ops': cops + [{'op': 'execute', 'c': 2, 'lang': 'en', 'text': base}, {'op': 'execute', 'c': 2, 'lang': 'en', 'text': var}]})


def run_shard(ctx):
    rng = ctx.rng
    res = ctx.res
    clock_name, epoch = ctx.clock_for_shard()
    drv = ctx.driver(epoch)
    cfg = mon.cfg_with()
    today_year = mon.virtual_now(epoch).year
    while not ctx.out_of_time():
        items, meta = [], []
        for _ in range(60):
            if rng.random() < 0.08:
                # blank-only / comment-only lines
                text = rng.choice(['', ' ', '     ', '  ']) + (comment_text(rng) if rng.random() < 0.7 else '')
                items.append(('en', text))
                meta.append(('empty', text, None))
                continue
            lang = 'tr' if rng.random() < 0.15 else 'en'
            lines = gen_base_tr(rng) if lang == 'tr' else gen_base(rng, today_year)
            base = render(rng, lines, 'base')
            variants = [(m, render(rng, lines, m)) for m in ('blanks', 'comment', 'case', 'all')]
            items.append((lang, base))
            meta.append(('base', base, len(variants)))
            for m, t in variants:
                items.append((lang, t))
                meta.append(('variant:' + m, t, None))
        rs = mon.run_lines(drv, cfg, items)
        app_rules(ctx, drv, cfg)
        i = 0
        while i < len(meta):
            kind, text, nvar = meta[i]
            if kind == 'empty':
                slot = mon.slot0(rs[i])
                res.cases += 1
                res.count('class:blank-or-comment-only')
                res.distinct.add('empty', text)
                if slot is not None:
                    res.violation('rewrite:comment-only-line-evaluates', 'the line %r should evaluate to nothing, got %s' % (text, mon.describe(slot)),
                                  {'config': cfg, 'lang': 'en', 'text': text, 'ops': mon.gh.config_ops(cfg) + [{'op': 'execute', 'lang': 'en', 'text': text}]})
                else:
                    res.count('ok')
                i += 1
                continue
            bslot = mon.last_slot(rs[i])
            bval = value(bslot)
            if bval is None or mon.kind(bslot) in ('err', 'abnormal', 'empty', 'none'):
                res.count('base_lines_without_value_skipped')
                i += 1 + nvar
                continue
            for j in range(1, nvar + 1):
                vkind, vtext, _ = meta[i + j]
                vslot = mon.last_slot(rs[i + j])
                res.cases += 1
                res.count('class:' + vkind)
                res.count('lang:' + items[i][0])
                res.distinct.add(text, vtext)
                if value(vslot) == bval:
                    res.count('ok')
                    if res.cases % 499 == 0:
                        res.sample({'base': text, 'rewritten': vtext, 'value': mon.describe(bslot)})
                else:
                    res.violation('rewrite:%s:%s' % (vkind.split(':')[1], bval.get('k')), 'base %r = %s, rewritten %r = %s' % (text, mon.describe(bslot), vtext, mon.describe(vslot)),
                                  {'config': cfg, 'lang': items[i][0], 'text': vtext, 'base': text, 'epoch': epoch,
                                   'ops': mon.gh.config_ops(cfg) + [{'op': 'execute', 'lang': items[i][0], 'text': text}, {'op': 'execute', 'lang': items[i][0], 'text': vtext}]})
            i += 1 + nvar

"""C18 - custom rules and user-defined unit families. DESIGN.md 3.C18."""

from . import gen_hostile as gh
from . import lex, mon

SPEC = {
    'rule': ('histories of 5-60 add_rule / delete_rule / add_dynamic_type / add_dynamic_type_item calls interleaved with evaluations, over a pool '
             'of 23 rule specs (named NUMBER / TEXT / MONEY / PERCENT fields encoded into the returned number, two specs sharing a pattern, two '
             'sharing a name, one declining, one for tr, one for an unknown language, one returning money, a word-group field and a Turkish operator word in patterns registered for tr) and 3 unit families (chains of 2-5 '
             'items with integer factors, duplicate family names and indices, an item for a missing family). Oracle: a model calculator '
             '(ordered surviving rules per language, families); return values and matching lines are judged against the model during the '
             'history, and after every history the calculator and a fresh one on which only the surviving registrations are replayed in '
             'order must agree on a probe battery (rule-matching lines, near misses, family conversions, corpus lines), with the '
             'configuration fingerprint (hook H3) compared as a lead; one rule fired up to 40 times on a line; family amounts 0 and amounts held by a name. non-trivial = a judged call; distinct = distinct (history prefix, call)'),
    'min_nontrivial': 1500,
    'budget_s': {'quick': 45, 'thorough': 420},
    'assumptions': ['single-token patterns whose result matches the pattern again are not generated', 'family amounts are integers divisible by the chain factors '
                    '(fractional amounts under the default separators belong to C08/C12)'],
}

RULES = {
    'A': {'lang': 'en', 'patterns': ['zork {NUMBER:a} {NUMBER:b}'], 'spec': {'name': 'r1', 'kind': 'encode', 'weights': {'a': 1, 'b': 1000}}},
    'B': {'lang': 'en', 'patterns': ['{NUMBER:x} zork', 'zork of {NUMBER:x}'], 'spec': {'name': 'r2', 'kind': 'encode', 'weights': {'x': 7}}},
    'C': {'lang': 'en', 'patterns': ['zork {NUMBER:a} {NUMBER:b}'], 'spec': {'name': 'r3', 'kind': 'encode', 'weights': {'a': 1000, 'b': 1}}},
    'D': {'lang': 'en', 'patterns': ['blip {NUMBER:n}'], 'spec': {'name': 'r1', 'kind': 'encode', 'weights': {'n': 3}}},
    'E': {'lang': 'en', 'patterns': ['zork {NUMBER:a} {NUMBER:b}', 'blip {NUMBER:n}'], 'spec': {'name': 'r5', 'kind': 'decline'}},
    'F': {'lang': 'tr', 'patterns': ['zork {NUMBER:a} {NUMBER:b}'], 'spec': {'name': 'r6', 'kind': 'encode', 'weights': {'a': 11, 'b': 13}}},
    'G': {'lang': 'xx', 'patterns': ['zork {NUMBER:a} {NUMBER:b}'], 'spec': {'name': 'r7', 'kind': 'const', 'value': 1}},
    'H': {'lang': 'en', 'patterns': ['{NUMBER:count} {TEXT:coin:qoin}'], 'spec': {'name': 'r8', 'kind': 'money', 'value': 100, 'currency': 'usd', 'amount_field': 'count'}},
    'I': {'lang': 'en', 'patterns': ['glorp {TEXT:who}'], 'spec': {'name': 'r9', 'kind': 'encode', 'weights': {'who': 5}, 'text_codes': {'alice': 1, 'bob': 2}}},
    'J': {'lang': 'en', 'patterns': ['frob {PERCENT:p} {MONEY:m}'], 'spec': {'name': 'r10', 'kind': 'encode', 'weights': {'p': 1, 'm': 100}}},
    # patterns whose tokens depend on the language the rule is registered for: a word-group field (hour_group is 'saat' in tr,
    # 'hour'/'hours' in en) and a word that is an operator alias in tr only ('kere' = '*')
    'K': {'lang': 'tr', 'patterns': ['{GROUP:label:hour_group} {NUMBER:n}'], 'spec': {'name': 'r11', 'kind': 'encode', 'weights': {'n': 60}}},
    'L': {'lang': 'tr', 'patterns': ['{NUMBER:n} kere'], 'spec': {'name': 'r12', 'kind': 'encode', 'weights': {'n': 7}}},
    'N': {'lang': 'en', 'patterns': ['dozen'], 'spec': {'name': 'r13', 'kind': 'const', 'value': 12}},      # a one-word pattern (shorter than every built-in pattern)
    'O': {'lang': 'en', 'patterns': ['mint {TEXT:coin}'], 'spec': {'name': 'r14', 'kind': 'encode', 'weights': {'coin': 100}, 'text_codes': {'btc': 1, 'eth': 2},
                                                                 'decline_unknown_text': True}},     # declines unknown coins, accepts known ones
    'P': {'lang': 'tr', 'patterns': ['çay {NUMBER:n}', '{NUMBER:n} kutu süt'], 'spec': {'name': 'r15', 'kind': 'encode', 'weights': {'n': 4}}},      # literal words with non-ASCII letters
    'Q': {'lang': 'en', 'patterns': ['café {NUMBER:n}'], 'spec': {'name': 'r15', 'kind': 'encode', 'weights': {'n': 9}}},
    # fields of the other types (the value each field receives comes from built-in rules that ran before)
    'R': {'lang': 'en', 'patterns': ['{DATE_TIME:when} meeting'], 'spec': {'name': 'r16', 'kind': 'const', 'value': 42}},
    'S': {'lang': 'en', 'patterns': ['{DATE:d} deadline'], 'spec': {'name': 'r17', 'kind': 'const', 'value': 43}},
    'T': {'lang': 'en', 'patterns': ['{TIME:t} alarm'], 'spec': {'name': 'r18', 'kind': 'const', 'value': 44}},
    'U': {'lang': 'en', 'patterns': ['{DURATION:d} nap'], 'spec': {'name': 'r19', 'kind': 'encode', 'weights': {'d': 1}}},
    'V': {'lang': 'en', 'patterns': ['{MONTH:m} report'], 'spec': {'name': 'r20', 'kind': 'encode', 'weights': {'m': 1}}},
    # a custom rule whose name is the function name of a built-in rule
    'W': {'lang': 'en', 'patterns': ['wibble {NUMBER:n}'], 'spec': {'name': 'number_of', 'kind': 'encode', 'weights': {'n': 2}}},
    'M': {'lang': 'en', 'patterns': ['{GROUP:label:hour_group} {NUMBER:n}'], 'spec': {'name': 'r11', 'kind': 'encode', 'weights': {'n': 61}}},
    # field names that are not identifiers (a hyphen, a blank, a point, a non-ASCII letter)
    'X': {'lang': 'en', 'patterns': ['{NUMBER:unit-price} pieces {NUMBER:list price}'], 'spec': {'name': 'r21', 'kind': 'encode', 'weights': {'unit-price': 100, 'list price': 1}}},
    'Y': {'lang': 'tr', 'patterns': ['{NUMBER:birim.fiyat} adet {PERCENT:iskonto oranı}'], 'spec': {'name': 'r22', 'kind': 'encode', 'weights': {'birim.fiyat': 100, 'iskonto oranı': 1}}},
}

DATE_RULES = {
    'en': ['{MONTH:month} {NUMBER:day}, {NUMBER:year}', '{MONTH:month} {NUMBER:day} {NUMBER:year}', '{NUMBER:day}/{NUMBER:month}/{NUMBER:year}',
           '{NUMBER:day} {MONTH:month} {NUMBER:year}', '{NUMBER:day} {MONTH:month}'],
    'tr': ['{NUMBER:day}/{NUMBER:month}/{NUMBER:year}', '{NUMBER:day} {MONTH:month} {NUMBER:year}', '{NUMBER:day} {MONTH:month}'],
}

FAMILIES = {
    'qfam': [('qa', None), ('qb', 2), ('qc', 4), ('qd', 10), ('qe', 3)],      # (unit word, factor from the previous item)
    'wfam': [('wa', None), ('wb', 5)],
    'vfam': [('va', None), ('vb', 8), ('vc', 2)],
    'pfam': [('Pq', None), ('hPq', 100), ('kPq', 10)],            # unit names with capital letters
    'sfam': [('sja', None), ('sjb', 1000), ('sjc', 1000), ('sjd', 1000), ('sje', 1000)],      # a steep chain: tiny and huge amounts (1680 sja = 1.68e-9 sje)
}


def probes():
    """(lang, text, pattern family, fields) - lines that match the spec patterns"""
    out = []
    for a, b in ((3, 4), (12, 5), (0, 1)):
        out.append(('en', 'zork %d %d' % (a, b), 'zork {NUMBER:a} {NUMBER:b}', {'a': a, 'b': b}))
        out.append(('tr', 'zork %d %d' % (a, b), 'zork {NUMBER:a} {NUMBER:b}', {'a': a, 'b': b}))
    out.append(('en', '6 zork', '{NUMBER:x} zork', {'x': 6}))
    out.append(('en', 'zork of 9', 'zork of {NUMBER:x}', {'x': 9}))
    out.append(('en', 'blip 8', 'blip {NUMBER:n}', {'n': 8}))
    out.append(('en', '5 qoin', '{NUMBER:count} {TEXT:coin:qoin}', {'count': 5}))
    out.append(('en', 'glorp alice', 'glorp {TEXT:who}', {'who': 'alice'}))
    out.append(('en', 'glorp Bob', 'glorp {TEXT:who}', {'who': 'bob'}))
    out.append(('en', 'frob 10% $5', 'frob {PERCENT:p} {MONEY:m}', {'p': 10, 'm': 5}))
    out.append(('tr', 'saat 5', '{GROUP:label:hour_group} {NUMBER:n}', {'n': 5}))
    out.append(('tr', '5 kere', '{NUMBER:n} kere', {'n': 5}))
    out.append(('en', 'hours 5', '{GROUP:label:hour_group} {NUMBER:n}', {'n': 5}))
    out.append(('en', 'hour 9', '{GROUP:label:hour_group} {NUMBER:n}', {'n': 9}))
    out.append(('en', 'dozen', 'dozen', {}))
    out.append(('en', '12 march 2020 at 11:30 meeting', '{DATE_TIME:when} meeting', {}))
    out.append(('en', '1584012600 to date meeting', '{DATE_TIME:when} meeting', {}))
    out.append(('en', '12 march 2020 deadline', '{DATE:d} deadline', {}))
    out.append(('en', '11:30 alarm', '{TIME:t} alarm', {}))
    out.append(('en', '2 hours nap', '{DURATION:d} nap', {'d': 7200}))
    out.append(('en', 'march report', '{MONTH:m} report', {'m': 3}))
    out.append(('en', 'wibble 21', 'wibble {NUMBER:n}', {'n': 21}))
    out.append(('en', '3 pieces 4', '{NUMBER:unit-price} pieces {NUMBER:list price}', {'unit-price': 3, 'list price': 4}))
    out.append(('tr', '3 adet %4', '{NUMBER:birim.fiyat} adet {PERCENT:iskonto oranı}', {'birim.fiyat': 3, 'iskonto oranı': 4}))
    out.append(('en', '10% of 200', '(built-in)', {}))
    out.append(('tr', 'çay 3', 'çay {NUMBER:n}', {'n': 3}))
    out.append(('tr', 'ÇAY 3', 'çay {NUMBER:n}', {'n': 3}))
    out.append(('tr', 'Çay 3', 'çay {NUMBER:n}', {'n': 3}))
    out.append(('tr', '3 KUTU SÜT', '{NUMBER:n} kutu süt', {'n': 3}))
    out.append(('en', 'CAFÉ 3', 'café {NUMBER:n}', {'n': 3}))
    out.append(('en', 'café 3', 'café {NUMBER:n}', {'n': 3}))
    out.append(('en', 'mint btc', 'mint {TEXT:coin}', {'coin': 'btc'}))
    out.append(('en', 'mint doge', 'mint {TEXT:coin}', {'coin': 'doge'}))
    out.append(('en', 'mint ETH', 'mint {TEXT:coin}', {'coin': 'eth'}))
    return out


NEAR_MISSES = [('en', 'zork 3'), ('en', 'zork x y'), ('en', 'glorp 5'), ('en', 'blip'), ('en', '5 qoins'), ('en', 'frob 10% 5'), ('tr', '6 zork'), ('en', 'zork'),
               ('en', 'zork 3 4 + 1'), ('en', '2 * blip 8'),
               ('en', 'saat 5'), ('tr', 'hours 5'), ('en', '5 kere'), ('tr', '5 saat'), ('en', 'dozen * 2'), ('en', '3 dozen'), ('tr', 'dozen')]


class Model:
    def __init__(self):
        self.rules = {l: [] for l in lex.languages()}
        self.families = {}
        self.builtin = {t['name'] for t in lex.config()['types']}
        self.log = []        # successful registrations in order (for the replay)

    def add_rule(self, rid):
        r = RULES[rid]
        if r['lang'] not in self.rules:
            return False
        self.rules[r['lang']].append(rid)
        self.log.append(('rule', rid))
        return True

    def delete_rule(self, lang, name):
        lst = self.rules.get(lang)
        if lst is None:
            return False
        for i, rid in enumerate(lst):
            if RULES[rid]['spec']['name'] == name:
                del lst[i]
                # the replay registers only surviving rules: drop the first matching registration
                for j, e in enumerate(self.log):
                    if e == ('rule', rid):
                        del self.log[j]
                        break
                return True
        return False

    def add_type(self, name):
        if name in self.builtin or name in self.families:
            return False
        self.families[name] = {}
        self.log.append(('type', name))
        return True

    def add_item(self, name, index):
        if name not in self.families or index in self.families[name]:
            return False
        self.families[name][index] = True
        self.log.append(('item', name, index))
        return True

    def expect(self, lang, pattern, fields):
        """value returned by the first surviving non-declining rule with that pattern, or None"""
        for rid in self.rules.get(lang, []):
            r = RULES[rid]
            if pattern in r['patterns'] and r['spec']['kind'] != 'decline':
                sp = r['spec']
                if sp.get('decline_unknown_text') and any(isinstance(fields.get(n), str) and fields[n] not in sp.get('text_codes', {}) for n in sp['weights']):
                    continue          # this rule declines the match: the next rule in registration order is asked
                if sp['kind'] == 'const':
                    return ('number', float(sp['value']))
                if sp['kind'] == 'money':
                    return ('money', float(fields[sp['amount_field']] * sp['value']), sp['currency'])
                total = 0.0
                for name, w in sp['weights'].items():
                    v = fields[name]
                    if isinstance(v, str):
                        v = sp.get('text_codes', {}).get(v, -1)
                    total += w * v
                return ('number', total)
        return None


# a family whose steps do not commute (an offset next to a factor): the order in which the declared steps are applied is observable
AFFINE = {
    'tfam': {
        'words': ['tja', 'tjb', 'tjc', 'tjd'],
        'up': ['{value} / 2', '{value} - 10', '{value} / 4', '{value}'],            # code of item k: to item k+1
        'down': ['{value}', '{value} * 2', '{value} + 10', '{value} * 4'],           # code of item k: to item k-1
        'up_f': [lambda x: x / 2, lambda x: x - 10, lambda x: x / 4],
        'down_f': [None, lambda x: x * 2, lambda x: x + 10, lambda x: x * 4],
    },
}


def item_op(name, index, c=0):
    if name in AFFINE:
        a = AFFINE[name]
        word = a['words'][index - 1]
        return {'op': 'add_type_item', 'c': c, 'name': name, 'index': index, 'format': '{value} %s' % word.upper(), 'parse': ['{NUMBER:value} {TEXT:type:%s}' % word],
                'up': a['up'][index - 1], 'down': a['down'][index - 1], 'names': [word]}
    chain = FAMILIES[name]
    word, _ = chain[index - 1]
    up = '{value}' if index == len(chain) else '{value} / %d' % chain[index][1]
    down = '{value}' if index == 1 else '{value} * %d' % chain[index - 1][1]
    return {'op': 'add_type_item', 'c': c, 'name': name, 'index': index, 'format': '{value} %s' % word.upper(), 'parse': ['{NUMBER:value} {TEXT:type:%s}' % word],
            'up': up, 'down': down, 'names': [word]}


def rule_op(rid, c=0):
    r = RULES[rid]
    return {'op': 'add_rule', 'c': c, 'lang': r['lang'], 'patterns': r['patterns'], 'spec': r['spec']}


def family_probes(model):
    out = []
    for name, items in model.families.items():
        if name in AFFINE:
            a = AFFINE[name]
            idx = sorted(items)
            for i in idx:
                for j in idx:
                    if i == j or any(k not in items for k in range(min(i, j), max(i, j) + 1)):
                        continue
                    x = 1680.0 if (i + j) % 3 else 0.0          # a third of the pairs with the amount 0 (an offset step moves it)
                    x0 = x
                    if j > i:
                        for k in range(i, j):
                            x = a['up_f'][k - 1](x)
                    else:
                        for k in range(i, j, -1):
                            x = a['down_f'][k - 1](x)
                    out.append(('en', '%d %s to %s' % (x0, a['words'][i - 1], a['words'][j - 1]), name, j, float(x)))
            continue
        chain = FAMILIES[name]
        idx = sorted(items)
        for i in idx:
            for j in idx:
                if i == j:
                    continue
                lo, hi = min(i, j), max(i, j)
                if any(k not in items for k in range(lo, hi + 1)):
                    continue            # a gap in the chain: not judged
                f = 1
                for k in range(lo, hi):
                    f *= chain[k][1]
                amount = 240 * 7
                want = amount / f if j > i else amount * f
                out.append(('en', '%d %s to %s' % (amount, chain[i - 1][0], chain[j - 1][0]), name, j, float(want)))
    return out


def strip(r):
    if 'lines' in r:
        return ('lines', r.get('status'), tuple(None if s_ is None else (s_.get('out'), s_.get('err'), repr(sorted((s_.get('v') or {}).items()))) for s_ in r['lines']))
    if 'panic' in r:
        return ('panic', r['panic'].get('msg'))
    return ('other', repr({k: r[k] for k in r if k in ('hang', 'crash', 'driver_error', 'ok')}))


def complete_families(ctx, drv, cfg):
    """Every user family registered completely (items in random order) on a new calculator: every ordered pair of items converts
    along the declared chain, step by step in chain order (the affine family makes the order of the steps observable), also
    through a variable and inside a sum."""
    rng, res = ctx.rng, ctx.res
    model = Model()
    ops = [{'op': 'new_calc', 'c': 7, 'seg': True}] + gh.config_ops(cfg, 7, seg=False)
    for name in list(FAMILIES) + list(AFFINE):
        model.add_type(name)
        ops.append({'op': 'add_type', 'c': 7, 'name': name})
        n = len(FAMILIES[name]) if name in FAMILIES else len(AFFINE[name]['words'])
        order = list(range(1, n + 1))
        rng.shuffle(order)
        for i in order:
            model.add_item(name, i)
            ops.append(item_op(name, i, 7))
    probes_ = family_probes(model)
    n0 = len(ops)
    for lang, text, fam, j, want in probes_:
        form = rng.randrange(4)
        if form == 1:
            text = 'zq = %s\nzq to %s' % tuple(text.split(' to '))
        elif form == 2:
            amount_, rest_ = text.split(' ', 1)
            text = 'wv = %s\nwv %s' % (amount_, rest_)           # the amount held by a name
        ops.append({'op': 'execute', 'c': 7, 'lang': lang, 'text': text})
    rs = drv.run(ops)[n0:]
    for (lang, text, fam, j, want), r in zip(probes_, rs):
        slot = mon.last_slot(r)
        res.cases += 1
        res.count('class:family-conversion')
        res.count('complete_family_conversions')
        res.distinct.add('family', text)
        res.cover('ordered pair of items of a user family converted', '%s|%s' % (fam, text.split(' ', 1)[1]), len(probes_))
        ok = mon.kind(slot) == 'unit' and slot['v']['group'] == fam and slot['v']['index'] == j and abs(mon.fval(slot) - want) <= 1e-9 * max(abs(want), 1e-300)
        if ok:
            res.count('ok')
        else:
            res.violation('family:conversion', 'on a calculator with the complete user families the line %r should give %r in item %d of %s, got %s' % (text, want, j, fam, mon.describe(slot)),
                          {'lang': lang, 'text': text, 'ops': ops[:n0] + [{'op': 'execute', 'c': 7, 'lang': lang, 'text': text}]})


def configured_language_without_rules(ctx, drv, cfg):
    """Registration fails only for an unknown language: on a calculator built (load_from_json) from the shipped text in which a language
    has no built-in rules - a new language copied from en with an empty rule table, or tr with its rules emptied - add_rule succeeds,
    the rule fires, and delete_rule removes it."""
    import copy
    import os
    from . import core
    rng, res = ctx.rng, ctx.res
    conf = lex.config()
    if rng.random() < 0.5:
        lang = 'de'
        body = copy.deepcopy(conf['languages']['en'])
        body['rules'] = {}
        edits = [['/languages/de', body]]
    else:
        lang = 'tr'
        edits = [['/languages/tr/rules', {}]]
    w = rng.choice([3, 7, 11])
    setup = [{'op': 'new_calc_json', 'c': 4, 'seg': True, 'path': os.path.join(core.REPO, 'src/json/config.json'), 'set': edits}] + gh.config_ops(cfg, 4, seg=False)
    ops = setup + [{'op': 'add_rule', 'c': 4, 'lang': lang, 'patterns': ['blip {NUMBER:n}'], 'spec': {'name': 'solo', 'kind': 'encode', 'weights': {'n': w}}},
                   {'op': 'execute', 'c': 4, 'lang': lang, 'text': 'blip 8'},
                   {'op': 'execute', 'c': 4, 'lang': lang, 'text': '2 * (blip 8) + blip 1'},
                   {'op': 'delete_rule', 'c': 4, 'lang': lang, 'name': 'solo'},
                   {'op': 'execute', 'c': 4, 'lang': lang, 'text': 'blip 8'},
                   {'op': 'add_rule', 'c': 4, 'lang': 'xx', 'patterns': ['blip {NUMBER:n}'], 'spec': {'name': 'solo', 'kind': 'const', 'value': 1}}]
    rs = drv.run(ops)[len(setup):]
    checks = [('add_rule for the configured language %r returns true' % lang, rs[0].get('ok') is True),
              ("'blip 8' gives %r" % (8.0 * w), mon.kind(mon.slot0(rs[1])) == 'number' and mon.fval(mon.slot0(rs[1])) == 8.0 * w),
              ("'2 * (blip 8) + blip 1' gives %r" % (17.0 * w), mon.kind(mon.slot0(rs[2])) == 'number' and mon.fval(mon.slot0(rs[2])) == 17.0 * w),
              ('delete_rule returns true', rs[3].get('ok') is True),
              ("after delete_rule 'blip 8' is 8 again", mon.kind(mon.slot0(rs[4])) == 'number' and mon.fval(mon.slot0(rs[4])) == 8.0),
              ('add_rule for the unknown language xx returns false', rs[5].get('ok') is False)]
    for k, (what, ok) in enumerate(checks):
        res.cases += 1
        res.count('class:language-without-built-in-rules')
        res.distinct.add('norules', lang, w, k)
        if ok:
            res.count('ok')
        else:
            res.violation('api:language-without-rules', 'a calculator built from the shipped configuration text with %s: expected that %s; results: %s' % (
                'a language de copied from en with an empty rule table' if lang == 'de' else 'the rule table of tr emptied', what,
                [r if 'lines' not in r else mon.describe(mon.slot0(r)) for r in rs]), {'lang': lang, 'text': 'blip 8', 'ops': ops})
            break


def decline_equivalence(ctx, drv, cfg):
    """A match that the rule declines leaves the line as if that pattern were absent: a rule with the patterns [P1, P2] whose
    behaviour declines every P1 match (the field it needs is only bound by P2) must behave exactly like the same rule registered
    with [P2] alone - also on lines where both patterns occur, in either order."""
    rng, res = ctx.rng, ctx.res
    w = rng.choice([3, 7, 11])
    spec = {'name': 'cond', 'kind': 'encode', 'weights': {'n': w}}
    p1 = rng.choice(['zork {NUMBER:a} {NUMBER:b}', '{NUMBER:a} zork', 'zork {TEXT:t}'])
    p2 = rng.choice(['blip {NUMBER:n}', '{NUMBER:n} blip'])
    lang = rng.choice(['en', 'en', 'tr'])
    ops = [{'op': 'new_calc', 'c': 5, 'seg': True}] + gh.config_ops(cfg, 5, seg=False) + [{'op': 'add_rule', 'c': 5, 'lang': lang, 'patterns': [p1, p2], 'spec': spec}]
    ops += [{'op': 'new_calc', 'c': 6}] + gh.config_ops(cfg, 6, seg=False) + [{'op': 'add_rule', 'c': 6, 'lang': lang, 'patterns': [p2], 'spec': spec}]
    m1 = {'zork {NUMBER:a} {NUMBER:b}': 'zork 3 4', '{NUMBER:a} zork': '6 zork', 'zork {TEXT:t}': 'zork abc'}[p1]
    m2 = {'blip {NUMBER:n}': 'blip 8', '{NUMBER:n} blip': '8 blip'}[p2]
    lines = [m2, m1, '%s + %s' % (m1, m2), '%s + %s' % (m2, m1), '%s * 2' % m2, '2 * (%s) + %s' % (m2, m1), '%s\n%s' % (m1, m2),
             ' + '.join([m2] * rng.choice([17, 33, 40]))]            # one rule fired many times on a line
    n0 = len(ops)
    for t in lines:
        ops.append({'op': 'execute', 'c': 5, 'lang': lang, 'text': t})
        ops.append({'op': 'execute', 'c': 6, 'lang': lang, 'text': t})
    rs = drv.run(ops)
    for k, t in enumerate(lines):
        ra, rb = rs[n0 + 2 * k], rs[n0 + 2 * k + 1]
        res.cases += 1
        res.count('class:declined-pattern-equivalence')
        res.distinct.add('decline', lang, p1, p2, t)
        if k == len(lines) - 1:
            slot = mon.slot0(ra)
            want_ = 8.0 * w * (t.count('+') + 1)
            if not (mon.kind(slot) == 'number' and mon.fval(slot) == want_):
                res.violation('rule:matching-line:many-on-a-line', 'a rule with the pattern %r (%s) should turn the %d matches of %r into %r, got %s' % (p2, lang, t.count('+') + 1, t[:60] + ' ...', want_, mon.describe(slot)),
                              {'lang': lang, 'text': t, 'ops': [o for o in ops[:n0] if o.get('c') == 5] + [{'op': 'execute', 'c': 5, 'lang': lang, 'text': t}]})
                continue
        if k == 0:
            slot = mon.slot0(ra)
            if not (mon.kind(slot) == 'number' and mon.fval(slot) == 8.0 * w):
                res.violation('rule:matching-line', 'a rule with the patterns %r (%s) should turn %r into %r, got %s' % ([p1, p2], lang, t, 8.0 * w, mon.describe(slot)),
                              {'lang': lang, 'text': t, 'ops': ops[:n0 // 2 + 1] + [{'op': 'execute', 'c': 5, 'lang': lang, 'text': t}]})
                continue
        if strip(ra) == strip(rb):
            res.count('ok')
        else:
            res.violation('rule:declined-pattern-not-as-absent', 'rule with patterns %r where every match of the first is declined: %r (%s) gives %s; the same rule registered with %r alone gives %s'
                          % ([p1, p2], t, lang, str(strip(ra))[:200], [p2], str(strip(rb))[:200]),
                          {'lang': lang, 'text': t, 'ops': [o for o in ops[:n0] if o.get('c') == 5] + [{'op': 'execute', 'c': 5, 'lang': lang, 'text': t}]})


def run_shard(ctx):
    rng = ctx.rng
    res = ctx.res
    drv = ctx.driver(rw=True)
    cfg = mon.cfg_with()
    plist = probes()
    corpus = [t for t in gh.corpus() if len(t) < 60][:40]
    n_hist = 0
    while not ctx.out_of_time():
        n_hist += 1
        if n_hist % 8 == 1:
            decline_equivalence(ctx, drv, cfg)
        if n_hist % 8 == 5:
            complete_families(ctx, drv, cfg)
        if n_hist % 8 == 3:
            configured_language_without_rules(ctx, drv, cfg)
        model = Model()
        ops = [{'op': 'new_calc', 'c': 0, 'seg': True}] + gh.config_ops(cfg, 0, seg=False)
        meta = {}
        hist = []
        for _ in range(rng.randint(5, 60)):
            r = rng.random()
            if r < 0.3:
                rid = rng.choice(sorted(RULES))
                want = model.add_rule(rid)
                ops.append(rule_op(rid))
                meta[len(ops) - 1] = ('ret', 'add_rule(%s)' % rid, want)
                hist.append('add_rule %s' % rid)
            elif r < 0.45:
                lang = rng.choice(['en', 'en', 'tr', 'xx'])
                name = rng.choice(['r1', 'r2', 'r3', 'r5', 'r6', 'r8', 'r9', 'r10', 'r11', 'r12', 'r13', 'r14', 'r15', 'r16', 'r17', 'r18', 'r19', 'r20', 'nope', 'number_of', 'number_of', 'convert_money', 'small_date'])
                want = model.delete_rule(lang, name)
                ops.append({'op': 'delete_rule', 'lang': lang, 'name': name})
                meta[len(ops) - 1] = ('ret', 'delete_rule(%s, %s)' % (lang, name), want)
                hist.append('delete_rule %s %s' % (lang, name))
            elif r < 0.49:
                # the date patterns of a language are set again (to what they are by default): this must not touch the registered rules
                lang = rng.choice(['en', 'tr'])
                ops.append({'op': 'set_date_rule', 'lang': lang, 'patterns': DATE_RULES[lang]})
                hist.append('set_date_rule %s' % lang)
            elif r < 0.53:
                name = rng.choice(list(FAMILIES) + list(AFFINE) + ['memory', 'metric-length'])
                want = model.add_type(name)
                ops.append({'op': 'fingerprint'})
                ops.append({'op': 'add_type', 'name': name})
                meta[len(ops) - 1] = ('ret', 'add_dynamic_type(%s)' % name, want)
                ops.append({'op': 'fingerprint'})
                if not want:
                    meta[len(ops) - 1] = ('fp-unchanged', len(ops) - 3, 'rejected add_dynamic_type(%s)' % name)
                hist.append('add_type %s' % name)
            elif r < 0.68:
                name = rng.choice(list(FAMILIES) + list(AFFINE))
                index = rng.randint(1, len(FAMILIES[name]) if name in FAMILIES else len(AFFINE[name]['words']))
                want = model.add_item(name, index)
                ops.append({'op': 'fingerprint'})
                ops.append(item_op(name, index))
                meta[len(ops) - 1] = ('ret', 'add_dynamic_type_item(%s, %d)' % (name, index), want)
                ops.append({'op': 'fingerprint'})
                if not want:
                    meta[len(ops) - 1] = ('fp-unchanged', len(ops) - 3, 'rejected add_dynamic_type_item(%s, %d)' % (name, index))
                hist.append('add_item %s %d' % (name, index))
            else:
                if rng.random() < 0.75 or not model.families:
                    lang, text, pat, fields = rng.choice(plist)
                    exp = model.expect(lang, pat, fields)
                    ops.append({'op': 'execute', 'lang': lang, 'text': text})
                    meta[len(ops) - 1] = ('eval', lang, text, exp, list(hist))
                else:
                    fp = family_probes(model)
                    if fp:
                        lang, text, fam, idx, want = rng.choice(fp)
                        ops.append({'op': 'execute', 'lang': lang, 'text': text})
                        meta[len(ops) - 1] = ('unit', lang, text, (fam, idx, want), list(hist))
        # after the history: probe battery on the calculator and on a fresh one with the surviving registrations replayed in order
        battery = [(l, t) for (l, t, _, _) in plist] + NEAR_MISSES + [(l, t) for (l, t, _, _, _) in family_probes(model)] + [('en', t) for t in corpus]
        b0 = len(ops)
        ops += [{'op': 'execute', 'c': 0, 'lang': l, 'text': t} for l, t in battery]
        ops.append({'op': 'fingerprint', 'c': 0, 'full': True})
        ops += [{'op': 'new_calc', 'c': 1}] + gh.config_ops(cfg, 1, seg=False)
        for e in model.log:
            if e[0] == 'rule':
                ops.append(rule_op(e[1], 1))
            elif e[0] == 'type':
                ops.append({'op': 'add_type', 'c': 1, 'name': e[1]})
            else:
                ops.append(item_op(e[1], e[2], 1))
        b1 = len(ops)
        ops += [{'op': 'execute', 'c': 1, 'lang': l, 'text': t} for l, t in battery]
        ops.append({'op': 'fingerprint', 'c': 1, 'full': True})
        rs = drv.run(ops)
        setup = [o for o in ops[:b0] if o['op'] not in ('execute', 'fingerprint')]
        for idx, m in meta.items():
            r = rs[idx]
            res.cases += 1
            if m[0] == 'ret':
                res.count('class:return-values')
                res.distinct.add('ret', tuple(hist[:12]), m[1], idx)
                got = r.get('ok') if 'ok' in r else ('panic: %s' % r['panic'].get('msg') if 'panic' in r else r)
                if got is not m[2]:
                    call = m[1].split('(')[0]
                    res.violation('api:%s-returns-%s' % (call, 'panic' if 'panic' in r else got), '%s returned %s, the model says %s' % (m[1], got, m[2]),
                                  {'ops': [o for o in ops[:idx + 1] if o['op'] not in ('execute', 'fingerprint')]})
                else:
                    res.count('ok')
            elif m[0] == 'fp-unchanged':
                res.count('class:rejected-call-leaves-state')
                if rs[m[1]].get('h') != r.get('h'):
                    res.violation('api:rejected-call-changes-state', 'the configuration fingerprint changed across a %s' % m[2],
                                  {'ops': [o for o in ops[:idx + 1] if o['op'] not in ('execute',)]})
                else:
                    res.count('ok')
            elif m[0] == 'eval':
                _, lang, text, exp, h = m
                res.count('class:matching-line')
                res.note_rw(r)
                res.distinct.add('eval', tuple(h), lang, text)
                if exp is None:
                    res.count('matching_lines_without_surviving_rule_checked_by_replay_only')
                    res.count('ok')
                    continue
                slot = mon.slot0(r)
                k = mon.kind(slot)
                ok = k == exp[0] and mon.fval(slot) == exp[1] and (exp[0] != 'money' or slot['v']['code'].lower() == exp[2])
                if ok:
                    res.count('ok')
                    if res.cases % 211 == 0:
                        res.sample({'history': h[-8:], 'lang': lang, 'text': text, 'observed': mon.describe(slot)})
                else:
                    res.violation('rule:matching-line', 'after %s the line %r (%s) should evaluate to %s, got %s; rule calls: %s' % (h[-8:], text, lang, exp, mon.describe(slot), r.get('calls')),
                                  {'lang': lang, 'text': text, 'ops': [o for o in ops[:idx + 1] if o['op'] not in ('execute', 'fingerprint')] + [ops[idx]]})
            else:
                _, lang, text, (fam, j, want), h = m
                res.count('class:family-conversion')
                res.distinct.add('unit', tuple(h), text)
                slot = mon.slot0(r)
                ok = mon.kind(slot) == 'unit' and slot['v']['group'] == fam and slot['v']['index'] == j and abs(mon.fval(slot) - want) <= 1e-9 * abs(want)
                if ok:
                    res.count('ok')
                else:
                    res.violation('family:conversion', 'after %s the line %r should give %r in item %d of %s, got %s' % (h[-8:], text, want, j, fam, mon.describe(slot)),
                                  {'lang': lang, 'text': text, 'ops': [o for o in ops[:idx + 1] if o['op'] not in ('execute', 'fingerprint')] + [ops[idx]]})
        # replay equivalence
        res.cases += 1
        res.count('class:replay-equivalence')
        res.count('battery_lines_compared', len(battery))
        res.distinct.add('replay', tuple(hist))
        diff = None
        for j, (l, t) in enumerate(battery):
            if strip(rs[b0 + j]) != strip(rs[b1 + j]):
                diff = (l, t, strip(rs[b0 + j]), strip(rs[b1 + j]))
                break
        fa, fb = rs[b0 + len(battery)].get('fp', ''), rs[b1 + len(battery)].get('fp', '')
        if fa != fb:
            res.count('h3_fingerprint_differs_from_replay_lead')
        if diff:
            fdiff = [x for x in fa.split('\n') if x not in set(fb.split('\n'))][:5]
            res.violation('api:not-equivalent-to-replay', 'after %s the line %r (%s) gives %s, on a fresh calculator with only the surviving registrations %s it gives %s; state that differs: %s'
                          % (hist[-12:], diff[1], diff[0], str(diff[2])[:200], [e for e in model.log], str(diff[3])[:200], fdiff),
                          {'lang': diff[0], 'text': diff[1], 'history': hist, 'surviving': [list(e) for e in model.log],
                           'ops': setup + [{'op': 'execute', 'lang': diff[0], 'text': diff[1]}]})
        else:
            res.count('ok')

"""Hostile text generators for C01 (also used as background load by C04 and C17)."""

import os
import re

from . import lex
from .numfmt import SEP_CONFIGS

_corpus = None


def corpus():
    global _corpus
    if _corpus is None:
        path = os.path.join(os.path.dirname(__file__), 'corpus.txt')
        out = []
        for line in open(path, encoding='utf-8'):
            line = line.rstrip('\n')
            line = re.split(r'\s{2,}\|', line)[0].strip()
            if line:
                out.append(line)
        _corpus = sorted(set(out))
    return _corpus


MULTIBYTE = ['İ', 'ı', 'ß', 'ŉ', 'ǰ', 'ΐ', 'ﬁ', 'ẞ', 'ç', 'ş', 'ğ', 'ö', 'ü', 'é', '€', '₺', '£', '¥', 'лв', '中', '日本', 'ع', 'א',
             '😀', '𝟙', '́', '‏', ' ', ' ', '\t', '\r', '\x00', '−', '٣', '½', 'Ⅳ', 'ǅ', 'ᾈ']
OPERATORS = list('+-*/()=%#^&!?;_\'.,:<>|~@$"[]{}\\')

_lexemes = None


def lexemes():
    """Everything the tokenizer knows, as a flat list of words."""
    global _lexemes
    if _lexemes is None:
        c = lex.config()
        words = set()
        for lang in c['languages']:
            words.update(lex.all_words(lang))
        words.update(lex.zones())
        words.update(k.upper() for k in c['currencies'])
        words.update(v['symbol'] for v in c['currencies'].values())
        words.update(['GMT', 'GMT+3', 'GMT-11', 'GMT+5:30', 'GMT+0530', 'GMT+19', 'GMT+1:99', 'gmt+2', 'am', 'pm', 'AM', 'PM',
                      'unix', 'date', 'what', 'is', 'of', 'on', 'off', 'at', 'to', 'as', 'in', 'into', 'hex', 'binary',
                      'octal', 'decimal', 'arası', 'today', 'now'])
        _lexemes = sorted(words)
    return _lexemes


def number_shape(rng):
    k = rng.randrange(28)
    d = lambda n: ''.join(rng.choice('0123456789') for _ in range(n))
    if k == 0:
        return d(rng.randint(1, 40))
    if k == 1:
        return ','.join(d(rng.randint(1, 3)) for _ in range(rng.randint(2, 5)))
    if k == 2:
        return '.'.join(d(rng.randint(1, 4)) for _ in range(rng.randint(2, 5)))
    if k == 3:
        return d(rng.randint(1, 4)) + rng.choice(['.', ',']) + d(rng.randint(0, 3)) + rng.choice(['.', ',', '']) + d(rng.randint(0, 3))
    if k == 4:
        return rng.choice(['0x', '0X']) + ''.join(rng.choice('0123456789abcdefABCDEF') for _ in range(rng.randint(1, 40)))
    if k == 5:
        return rng.choice(['0o', '0O']) + ''.join(rng.choice('01234567') for _ in range(rng.randint(1, 40)))
    if k == 6:
        return rng.choice(['0b', '0B']) + ''.join(rng.choice('01') for _ in range(rng.randint(1, 80)))
    if k == 7:
        return d(rng.randint(1, 6)) + rng.choice(list('kKMGTPZYxabz') + ['usd', 'km', 'kb', 'st', 'in', 'EUR', 'kr'])
    if k == 8:
        return '%d:%02d' % (rng.choice([0, 1, 9, 11, 12, 13, 23, 24, 25, 99]), rng.choice([0, 1, 30, 59, 60, 99]))
    if k == 9:
        return '%d:%02d:%02d' % (rng.randint(0, 25), rng.randint(0, 61), rng.randint(0, 61))
    if k == 10:
        return '%d%s%s' % (rng.choice([0, 1, 11, 12, 13, 24]), rng.choice(['', ' ']), rng.choice(['am', 'pm', 'AM', 'Pm']))
    if k == 11:
        return '%d/%d/%d' % (rng.choice([0, 1, 28, 29, 30, 31, 32]), rng.choice([0, 1, 2, 4, 12, 13]), rng.choice([0, 1, 1900, 2020, 2023, 2024, 9999, 10000, 300000, -1]))
    if k == 12:
        return rng.choice(['%', '']) + rng.choice(['-', '+', '']) + d(rng.randint(1, 3)) + rng.choice(['', ',' + d(1), ',' + d(1) + ',' + d(1), '.' + d(2)]) + rng.choice(['%', ''])
    if k == 13:
        return rng.choice(['-', '+', '--', '+-']) + d(rng.randint(1, 5))
    if k == 14:
        return rng.choice(['$', '€', '₺', '£', '¥', '₩', '₽', '฿']) + d(rng.randint(1, 7)) + rng.choice(['', 'k', 'M', ',5', '.000,00'])
    if k == 15:
        return d(rng.randint(1, 7)) + rng.choice(['', ' ']) + rng.choice(['$', '€', 'usd', 'TRY', 'try', 'dkk', 'kr', 'tl', 'xyz', 'bgn', 'лв'])
    if k == 16:
        return str(rng.choice([10**17, 10**18, 2**31 - 1, 2**31, 2**32, 2**53, 2**63 - 1, 2**63, 2**64, 10**19, 10**25, 10**308, 9223372036854775807]))
    if k == 17:
        return str(rng.choice([253402300799, 253402300800, -62135596800, -62135596801, 99999999999999999999, 8210298412800, -8334632851200]))
    if k == 18:
        return '1' + '0' * rng.randint(1, 320)
    if k == 19:
        return '0,' + '0' * rng.randint(1, 330) + '1'
    if k == 20:
        return d(rng.randint(1, 3)) + 'e' + d(rng.randint(1, 3))
    if k == 21:
        return rng.choice(['inf', 'NaN', 'nan', 'infinity', '1e400', '-0', '0', '00', '007'])
    if k == 22:
        return d(rng.randint(15, 22)) + rng.choice([' days', ' weeks', ' years', ' months', ' hours', ' seconds', ' minutes'])
    return str(rng.randint(0, 10000))


def atom(rng):
    kinds = ['TIME', 'MONEY', 'NUMBER', 'PERCENT', 'OPERATOR', 'DATE', 'FOO', 'MONTH', 'TEXT']
    k = rng.choice(kinds)
    payloads = ['1', '0', '86399', '86400', '4294967296', '-1', 'x', '', '1;usd', '1;xyz', '1;', ';usd', '10.5;try', 'x;usd', '1.5', '1,5', '%',
                '+', '*', '=', '(', 'ab', '1e3', 'inf', 'nan', '1;usd;2', ' 1', '١']
    return '[%s:%s]' % (k, rng.choice(payloads))


def field(rng):
    kinds = ['DATE_TIME', 'DATE', 'TIME', 'NUMBER', 'MONEY', 'PERCENT', 'MONTH', 'TIMEZONE', 'DURATION', 'DYNAMIC_TYPE', 'TEXT', 'GROUP',
             'NUMBER_OR_MONEY', 'TEXT_OR_MONTH', 'DATE_OR_TIME', 'FOO', 'NUMBER_GROUP']
    k = rng.choice(kinds)
    name = rng.choice(['a', 'value', 'type', 'x y', '1', ''])
    extra = rng.choice([None, 'conversion_group', 'duration_group', 'nope', 'mm', '', 'memory', 'a:b'])
    if extra is None:
        return '{%s:%s}' % (k, name)
    return '{%s:%s:%s}' % (k, name, extra)


def soup(rng, max_lexemes=25):
    n = rng.randint(1, max_lexemes)
    parts = []
    lx = lexemes()
    for _ in range(n):
        r = rng.random()
        if r < 0.30:
            w = rng.choice(lx)
            c = rng.random()
            if c < 0.15:
                w = w.upper()
            elif c < 0.3:
                w = w.capitalize()
            parts.append(w)
        elif r < 0.55:
            parts.append(number_shape(rng))
        elif r < 0.72:
            parts.append(rng.choice(OPERATORS))
        elif r < 0.78:
            parts.append(atom(rng))
        elif r < 0.82:
            parts.append(field(rng))
        elif r < 0.90:
            parts.append(rng.choice(MULTIBYTE))
        else:
            parts.append(rng.choice(['what', 'is', 'of', 'on', 'off', 'at', 'to', 'as', 'in', 'x =', 'y =', 'x', 'y']))
    out = ''
    for p in parts:
        out += p + rng.choice(['', ' ', ' ', ' ', '  ', '\t'])
    return out


def mutate(rng, line):
    ops = rng.randint(1, 4)
    s = line
    for _ in range(ops):
        if not s:
            s = rng.choice(corpus())
        k = rng.randrange(8)
        i = rng.randrange(len(s) + 1)
        j = min(len(s), i + rng.randint(1, 6))
        if k == 0:
            s = s[:i] + s[j:]
        elif k == 1:
            s = s[:i] + s[i:j] + s[i:]
        elif k == 2:
            s = s[:i] + rng.choice(MULTIBYTE) + s[i:]
        elif k == 3:
            other = rng.choice(corpus())
            a = rng.randrange(len(other) + 1)
            s = s[:i] + other[a:]
        elif k == 4:
            s = s[:i] + rng.choice(OPERATORS) + s[i:]
        elif k == 5:
            s = s[:i] + number_shape(rng) + s[i:]
        elif k == 6:
            toks = s.split(' ')
            rng.shuffle(toks)
            s = ' '.join(toks)
        else:
            s = s[:i] + s[i:j].swapcase() + s[j:]
    return s


def extreme(rng):
    """Structured-but-extreme instances of the other properties' phrases."""
    lm = list(lex.months('en')[0]) + list(lex.months('en')[1])
    month = rng.choice(lm)
    day = rng.choice([1, 28, 29, 30, 31])
    year = rng.choice([1, 1900, 2019, 2020, 2023, 2024, 9999, 10000, 262143, 300000])
    n = rng.choice([0, 1, 2, 10, 11, 12, 13, 14, 23, 24, 25, 30, 59, 365, 366, 1000, 10**6, 10**9, 10**17])
    unit = rng.choice(['days', 'weeks', 'months', 'years', 'hours', 'minutes', 'seconds', 'day', 'month', 'year'])
    sign = rng.choice(['+', '-'])
    forms = [
        '%d %s %d %s %d %s' % (day, month, year, sign, n, unit),
        '%s %d, %d %s %d %s' % (month, day, year, sign, n, unit),
        '%d/%d/%d %s %d %s' % (day, rng.randint(1, 12), year, sign, n, unit),
        '%d %s %d at %d' % (day, month, year, rng.choice([0, 11, 23, 24, 25, 99, 1000])),
        '%d %s %d at %d:%02d as unix' % (day, month, year, rng.choice([0, 11, 23]), rng.choice([0, 30, 59])),
        '%d to date' % rng.choice([0, -1, 86400, 2**31, 2**32, 10**10, 253402300799, 253402300800, 10**13, 10**17, 99999999999999999999, -62135596800, -62135596801]),
        '%d %s' % (n, unit),
        '%d %s as %s' % (n, unit, rng.choice(['seconds', 'minutes', 'hours', 'days', 'weeks', 'months', 'years'])),
        '%d %s %s %d %s' % (n, unit, sign, rng.choice([0, 1, 10**6, 10**12, 10**17]), rng.choice(['days', 'weeks', 'years'])),
        'today %s %d %s' % (sign, n, unit),
        'tomorrow %s %d %s' % (sign, n, unit),
        '%d:%02d %s %d %s' % (rng.randint(0, 23), rng.randint(0, 59), sign, n, unit),
        '%d:%02d %s to %s' % (rng.randint(0, 23), rng.randint(0, 59), rng.choice(list(lex.zones())), rng.choice(list(lex.zones()))),
        '(' * rng.choice([1, 2, 3, 10, 64, 200]) + '1' + ')' * rng.choice([1, 2, 3, 10, 64, 200]),
        ' / '.join(str(rng.choice([0, 1, 2, 12, 31, 2020])) for _ in range(rng.randint(2, 8))),
        '%d %s to %s' % (n, rng.choice(['km', 'mile', 'stone', 'yb', 'bit', 'mm', 'oz', 'inch', 'tonne']), rng.choice(['km', 'mile', 'stone', 'yb', 'bit', 'mm', 'oz', 'inch', 'kg', 'byte'])),
        '%d%% %s %d' % (n, rng.choice(['of', 'on', 'off']), rng.choice([0, 1, 10**6, 10**17])),
        '%d is what %% of %d' % (n, rng.choice([0, 1, 7])),
        '%d is %d%% of what' % (n, rng.choice([0, 1, 7])),
        '%d %s' % (n, rng.choice(['hex', 'binary', 'octal', 'to hex', 'to binary', 'as octal', 'to decimal'])),
        '0x%X %s 0b%s' % (rng.choice([0, 255, 2**31, 2**62]), rng.choice('+-*/'), bin(rng.choice([0, 1, 2**40]))[2:]),
        '$%d %s %d%%' % (n, sign, rng.choice([0, 10, 100, 1000])),
        '%d usd to %s' % (n, rng.choice(['try', 'eur', 'xyz', 'jpy', 'usd', 'kr', 'лв'])),
        'x = %d %s\nx %s x\nx as %s' % (n, unit, sign, rng.choice(['days', 'hours', 'weeks'])),
    ]
    return rng.choice(forms)


def unicode_line(rng):
    base = rng.choice(corpus())
    n = rng.randint(1, 5)
    s = base
    for _ in range(n):
        i = rng.randrange(len(s) + 1)
        s = s[:i] + rng.choice(MULTIBYTE) + s[i:]
    return s


def hostile_line(rng, long_tail=True):
    r = rng.random()
    if r < 0.40:
        s = soup(rng)
    elif r < 0.62:
        s = mutate(rng, rng.choice(corpus()))
    elif r < 0.84:
        s = extreme(rng)
    else:
        s = unicode_line(rng)
    if long_tail and rng.random() < 0.02:
        while len(s) < rng.randint(600, 4000):
            s += ' ' + soup(rng)
        s = s[:4096]
    else:
        s = s[:512]
    return s


SENTINELS = [('7 * 6', 42.0), ('1 + 1', 2.0), ('100 - 1', 99.0), ('9 / 3', 3.0)]


def hostile_text(rng, with_sentinels=True):
    """-> (text, expected_slots, sentinel: {line index: value})"""
    n = rng.choice([1, 1, 1, 2, 3, 5, 8, 13, 40]) if rng.random() < 0.7 else rng.randint(1, 40)
    lines = []
    sent = {}
    for k in range(n):
        r = rng.random()
        if r < 0.08:
            lines.append('')
        elif r < 0.12:
            lines.append(rng.choice(['   ', '# note', '  # 1 + 1', '\t']))
        else:
            ln = hostile_line(rng)
            ln = ln.replace('\n', ' ') if rng.random() < 0.9 else ln
            lines.append(ln)
    # the generators may embed newlines on purpose ('x = ..\nx + x'): flatten to a list of lines
    flat = []
    for ln in lines:
        flat.extend(re.split(r'\r\n|\n', ln))
    lines = flat
    if with_sentinels and len(lines) > 1 or (with_sentinels and rng.random() < 0.3):
        k = 0
        out = []
        for ln in lines:
            if rng.random() < 0.3:
                s_ = rng.choice(SENTINELS)
                sent[len(out)] = s_[1]
                out.append(s_[0])
            out.append(ln)
        s_ = rng.choice(SENTINELS)
        sent[len(out)] = s_[1]
        out.append(s_[0])
        lines = out
    # separators
    text = ''
    for k, ln in enumerate(lines):
        text += ln
        if k + 1 < len(lines):
            text += '\r\n' if rng.random() < 0.25 else '\n'
    if rng.random() < 0.1:
        text += '\n'
        lines.append('')
    parts = re.split(r'\r\n|\n', text)
    want = dict(SENTINELS)
    sent = {k: v for k, v in sent.items() if k < len(parts) and want.get(parts[k]) == v}
    return text, len(parts), sent


HOSTILE_LANGS = ['en', 'en', 'en', 'tr', 'tr', 'xx', 'EN', '', 'en-US', 'TR']


def hostile_config(rng):
    """-> dict(dec, thou, digits, rm, round, tz) reachable through the public setters"""
    r = rng.random()
    if r < 0.8:
        dec, thou = rng.choice(SEP_CONFIGS)
    else:
        dec = rng.choice([',', '.', '', ' ', ',,', 'x', '7', '-', '٫'])
        thou = rng.choice([',', '.', '', ' ', '..', "'", '0', dec])
    digits = rng.choice([0, 1, 2, 2, 2, 3, 4, 5, 6, 7, 8, 9, 9, 10, 19, 20, 255])
    tz = rng.choice(['UTC', 'UTC', 'UTC', 'EST', 'CET', 'IST', 'GMT+5:30', 'GMT-11', 'NZDT', 'CHADT', 'GMT+14', 'PST'])
    return {'dec': dec, 'thou': thou, 'digits': digits, 'rm': rng.random() < 0.5, 'round': rng.random() < 0.8, 'tz': tz, 'noise': rng.random() < 0.25}


def BUILTIN_FAMILIES():
    return [t['name'] for t in lex.config()['types']]


def config_ops(cfg, c=0, seg=True):
    """The full set of setter ops that puts calculator `c` into configuration cfg."""
    ops = [
        {'op': 'set_dec', 'c': c, 'v': cfg.get('dec', ',')},
        {'op': 'set_thou', 'c': c, 'v': cfg.get('thou', '.')},
        {'op': 'set_number_cfg', 'c': c, 'd': cfg.get('digits', 2), 'rm': cfg.get('rm', True), 'round': cfg.get('round', True)},
        {'op': 'set_percent_cfg', 'c': c, 'd': cfg.get('pdigits', cfg.get('digits', 2)), 'rm': cfg.get('rm', True), 'round': cfg.get('round', True)},
        {'op': 'set_money_cfg', 'c': c, 'rm': cfg.get('mrm', False), 'round': cfg.get('mround', True)},
        {'op': 'set_timezone', 'c': c, 'tz': cfg.get('tz', 'UTC')},
    ]
    if cfg.get('noise'):
        # a neutral piece of API history: a custom rule is registered and deleted again (deleting a rule restores the previous
        # behaviour, C18), so every property must hold on this calculator exactly as on one that never saw the rule
        for lang in ('en', 'tr'):
            ops.append({'op': 'add_rule', 'c': c, 'lang': lang, 'patterns': ['xyzzy {NUMBER:q}', '{NUMBER:q} xyzzy'], 'spec': {'name': 'noise', 'kind': 'const', 'value': 1}})
            ops.append({'op': 'delete_rule', 'c': c, 'lang': lang, 'name': 'noise'})
        # ... and a unit family is registered under the name of each built-in family (rejected: the name is taken; no change, C18)
        for name in BUILTIN_FAMILIES():
            ops.append({'op': 'add_type', 'c': c, 'name': name})
    if cfg.get('thou_first'):
        # the same configuration reached by calling the two separator setters in the other order
        ops[0], ops[1] = ops[1], ops[0]
    if c == 0 and cfg.get('json_built'):
        # the same calculator constructed the other public way: SmartCalc::load_from_json on the shipped configuration text, followed
        # by the date patterns SmartCalc::default() registers
        from . import core
        ops = ([{'op': 'new_calc_json', 'c': c, 'path': os.path.join(core.REPO, 'src/json/config.json'), 'set': cfg.get('json_edits', [])}] +
               [{'op': 'set_date_rule', 'c': c, 'lang': l_, 'patterns': p_} for l_, p_ in DEFAULT_DATE_PATTERNS if cfg.get('json_dates', True)]) + ops
    elif c == 0 and cfg.get('restore_default'):
        ops = [{'op': 'new_calc', 'c': c}] + ops
    if seg:
        ops[0]['seg'] = True
    return ops


def neutral_config_edits(seed):
    """JSON-pointer edits of the shipped configuration text that change no meaning: lists whose order says nothing, re-ordered"""
    import random
    rng = random.Random(seed)
    conf = lex.config()
    edits = []
    for k, fam in enumerate(conf['types']):
        items = list(fam['items'])
        if rng.random() < 0.5:
            items.reverse()
        else:
            rng.shuffle(items)
        edits.append(['/types/%d/items' % k, items])
    for lang, body in conf['languages'].items():
        for group, words in body.get('word_group', {}).items():
            words = list(words)
            rng.shuffle(words)
            edits.append(['/languages/%s/word_group/%s' % (lang, group), words])
    return edits


# what SmartCalc::default() passes to set_date_rule (src/smartcalc.rs)
DEFAULT_DATE_PATTERNS = [
    ('en', ['{MONTH:month} {NUMBER:day}, {NUMBER:year}', '{MONTH:month} {NUMBER:day} {NUMBER:year}', '{NUMBER:day}/{NUMBER:month}/{NUMBER:year}',
            '{NUMBER:day} {MONTH:month} {NUMBER:year}', '{NUMBER:day} {MONTH:month}']),
    ('tr', ['{NUMBER:day}/{NUMBER:month}/{NUMBER:year}', '{NUMBER:day} {MONTH:month} {NUMBER:year}', '{NUMBER:day} {MONTH:month}']),
]

"""C05 - percentage phrases compute the textbook formulas. DESIGN.md 3.C05."""

import re
from fractions import Fraction

from . import lex, mon
from .numfmt import SEP_CONFIGS, render_literal

SPEC = {
    'rule': ('the seven phrases (X + p%, X - p%, p% of/on/off X in both operand orders, A is what % of B, A is p% of what) x spellings '
             'p% / %p x X plain or money (code suffix, symbol prefix, k/M suffix) in every rated currency x separator conventions; '
             'values from {0, +-1, integers, fractions with 1-6 decimals, p > 100, p < 0, p = 0, B = 0}. Oracle: exact rational '
             'arithmetic on the literal values, tolerance 1e-12 x (sum of magnitudes of the formula terms); the kind (number / percent / '
             'money and its currency) must match exactly; the printed answer is judged with the print oracle of C07 under varied digit settings for numbers and percentages. non-trivial = every case; distinct = distinct (separators, text)'),
    'min_nontrivial': 2000,
    'budget_s': {'quick': 30, 'thorough': 300},
    'assumptions': ['a zero divisor yields 0', '"A is what % of B" is generated with A and B both plain or both in the same currency'],
}

XS = ['0', '1', '2', '7', '10', '50', '99', '100', '200', '250', '1000', '1234', '86400', '1000000', '0.5', '0.25', '1.5', '19.99', '3.14159', '0.001',
      '1234.5678', '999.995', '33.333333', '0.999']
PS = ['0', '1', '2', '5', '8', '10', '12.5', '15', '17.5', '20', '25', '33', '50', '75', '99', '100', '110', '150', '200', '1000', '0.5', '0.1', '33.333', '2.75', '1500', '2000', '12500', '1000000', '1234.5']

SYMBOL_PREFIX = {'usd': '$', 'eur': '€', 'try': '₺'}


def money_literal(rng, canon, code, sep, neg):
    """-> (text, multiplier)"""
    sign = '-' if neg else ''
    style = rng.random()
    lit = render_literal(canon, sep, rng.random() < 0.25)
    if style < 0.15 and code in SYMBOL_PREFIX:
        return SYMBOL_PREFIX[code] + sign + lit, 1
    if style < 0.25 and code in SYMBOL_PREFIX:
        return SYMBOL_PREFIX[code] + sign + lit + 'k', 1000
    if style < 0.35:
        k = rng.choice(['k', 'M'])
        return '%s%s%s %s' % (sign, lit, k, code), (1000 if k == 'k' else 1000000)
    c = code.upper() if rng.random() < 0.3 else code
    text = '%s%s%s%s' % (sign, lit, rng.choice([' ', '', ' ']), c)
    if re.match(r'[-+]?0[xX][0-9a-fA-F]|[-+]?0[oO][0-7]|[-+]?0[bB][01]', text):
        text = '%s%s %s' % (sign, lit, c)            # '0xaf', '0xbt': a based literal (C13); zero francs need the blank
    return text, 1


def pct_literal(rng, canon, sep, neg, detached_ok=False):
    lit = render_literal(canon, sep, rng.random() < 0.4)         # a percentage of 1000 or more may be written with grouping
    s = ('-' if neg else '') + lit
    if neg and detached_ok and rng.random() < 0.5:
        # behind the operator of 'X + p%' / 'X - p%': the minus in front of the percent sign (the usual Turkish spelling) or standing
        # apart from the literal (inside the word phrases a detached minus is an operator, not part of the percentage)
        return rng.choice(['-%' + lit, '- ' + lit + '%', '- %' + lit])
    return (s + '%') if rng.random() < 0.6 else ('%' + s)


LANGS = lex.languages()
FORM_RULE = {'of': 'number_of', 'of_r': 'number_of', 'on': 'number_on', 'on_r': 'number_on', 'off': 'number_off', 'off_r': 'number_off',
             'what_pct': 'find_numbers_percent', 'pct_of_what': 'find_total_from_percent'}


from .c07 import judge_print


def run_shard(ctx):
    rng = ctx.rng
    res = ctx.res
    drv = ctx.driver(rw=True)
    rated = lex.rated_codes()
    zone_names = {z.lower() for z in lex.zones()}
    # a percentage of an amount needs no exchange rate: every configured currency is used, rated or not (codes that are also zone
    # abbreviations or other words of the language are lexically ambiguous and left out, as in C06)
    all_codes = sorted(c for c in lex.currencies() if c not in zone_names and c not in lex.all_words('en') - set(lex.currencies()))
    while not ctx.out_of_time():
        sep = rng.choice(SEP_CONFIGS) if rng.random() < 0.5 else SEP_CONFIGS[0]
        # the number of decimals for plain numbers and for percentages are two settings: a result is printed with the one of its own kind
        cfg = mon.cfg_with(dec=sep[0], thou=sep[1], digits=rng.choice([2, 2, 0, 4]), pdigits=rng.choice([2, 2, 0, 3]), rm=rng.random() < 0.7, mrm=False, mround=True)
        items, meta = [], []
        # the phrases are configured with the same words in every language; the formulas do not depend on the language
        lang = 'en' if rng.random() < 0.65 else rng.choice(LANGS)
        rules = lex.config()['languages'][lang]['rules']
        forms = ['plus', 'minus'] + [f for f, rn in FORM_RULE.items() if rn in rules]
        for _ in range(150):
            xs = rng.choice(XS)
            ps = rng.choice(PS)
            xneg = rng.random() < 0.15
            pneg = rng.random() < 0.12
            money = rng.random() < 0.45
            code = rng.choice(rated) if rng.random() < 0.6 else rng.choice(all_codes)
            if money:
                xt, mult = money_literal(rng, xs, code, sep, xneg)
            else:
                xt, mult = ('-' if xneg else '') + render_literal(xs, sep, rng.random() < 0.2), 1
            X = Fraction(xs) * mult * (-1 if xneg else 1)
            p = Fraction(ps) * (-1 if pneg else 1)
            form = rng.choice(forms)
            pt = pct_literal(rng, ps, sep, pneg)
            pt_detached = pct_literal(rng, ps, sep, pneg, detached_ok=True)
            if rng.random() < 0.02 and 'of' in forms:
                # one phrase many times on a line: every one of them is rewritten
                n = rng.choice([2, 8, 15, 16, 17, 20, 24, 30])
                p_, x_ = rng.choice([5, 10, 25, 50]), rng.choice([40, 80, 200, 1000])
                kind_ = rng.choice(['of', 'off', 'on'])
                one = {'of': Fraction(x_ * p_, 100), 'off': Fraction(x_ * (100 - p_), 100), 'on': Fraction(x_ * (100 + p_), 100)}[kind_]
                pre = '$' if rng.random() < 0.3 else ''
                text = ' + '.join(['%d%% %s %s%d' % (p_, kind_, pre, x_)] * n)
                items.append((lang, text))
                meta.append((text, 'chain-' + kind_, 'money' if pre else 'number', 'usd' if pre else None, one * n, abs(one * n)))
                continue

            # operands may also come from variables bound on earlier lines
            prelude = ''
            via = 'literal'
            rv = rng.random()
            if rv < 0.12:
                prelude, pt, via = 'wv = %s\n' % pt, rng.choice(['wv', 'WV', 'wv']), 'percent-variable'
            elif rv < 0.22:
                prelude, xt, via = 'zq = %s\n' % xt, rng.choice(['zq', 'Zq']), 'amount-variable'
            elif rv < 0.27:
                prelude, xt, pt, via = 'zq = %s\nwv = %s\n' % (xt, pt), 'zq', 'wv', 'both-variables'
            want_kind = 'money' if money else 'number'
            # 'X + p%' / 'X - p%': the operator may be typed without blanks, also directly in front of the percentage
            glue = rng.choice(['%s %s %s', '%s %s %s', '%s %s %s', '%s %s%s', '%s%s%s', '%s%s %s']) if (not pneg and via != 'percent-variable' and via != 'both-variables') else '%s %s %s'
            if glue != '%s %s %s' and form in ('plus', 'minus'):
                via_note = 'glued-operator'
            else:
                via_note = None
                glue = '%s %s %s'
            if form in ('plus', 'minus') and via in ('literal', 'amount-variable') and glue == '%s %s %s':
                pt = pt_detached
            if form == 'plus':
                text = glue % (xt, '+', pt)
                want, scale = X * (1 + p / 100), abs(X) + abs(X * p / 100)
            elif form == 'minus':
                text = glue % (xt, '-', pt)
                want, scale = X * (1 - p / 100), abs(X) + abs(X * p / 100)
            elif form in ('of', 'of_r'):
                text = '%s of %s' % ((pt, xt) if form == 'of' else (xt, pt))
                want, scale = X * p / 100, abs(X * p / 100)
            elif form in ('on', 'on_r'):
                text = '%s on %s' % ((pt, xt) if form == 'on' else (xt, pt))
                want, scale = X * (1 + p / 100), abs(X) + abs(X * p / 100)
            elif form in ('off', 'off_r'):
                text = '%s off %s' % ((pt, xt) if form == 'off' else (xt, pt))
                want, scale = X * (1 - p / 100), abs(X) + abs(X * p / 100)
            elif form == 'what_pct':
                bs = rng.choice(XS)
                if money:
                    bt, bm = money_literal(rng, bs, code, sep, False)
                else:
                    bt, bm = render_literal(bs, sep), 1
                B = Fraction(bs) * bm
                text = '%s is what %% of %s' % (xt, bt)
                want = (100 * X / B) if B else Fraction(0)
                scale = abs(want)
                want_kind = 'percent'
            else:
                text = '%s is %s of what' % (xt, pt)
                want = (100 * X / p) if p else Fraction(0)
                scale = abs(want)
            if rng.random() < 0.15:
                text = text.replace(' is ', ' IS ').replace(' of ', ' Of ').replace(' on ', ' ON ').replace(' off ', ' Off ').replace('what', 'What')
            text = prelude + text
            items.append((lang, text))
            if via_note and via == 'literal':
                via = via_note
            if money:
                res.cover('currency of the amount', code, len(all_codes))
            meta.append((text, form + ('' if via == 'literal' else ':' + via), want_kind, code if money else None, want, scale))
        rs = mon.run_lines(drv, cfg, items, dates=False)
        for (text, form, want_kind, code, want, scale), r in zip(meta, rs):
            slot = mon.last_slot(r)
            res.cases += 1
            res.note_rw(r)
            res.count('form:' + form)
            res.count('lang:' + lang)
            res.count('operand:' + ('money' if code else 'plain'))
            res.distinct.add(sep, text)
            k = mon.kind(slot)
            problem = None
            if k != want_kind:
                problem = 'expected %s %r, got %s' % (want_kind, float(want), mon.describe(slot))
            elif want_kind == 'money' and slot['v']['code'].lower() != code:
                problem = 'expected money in %s, got %s' % (code, mon.describe(slot))
            else:
                got = mon.fval(slot)
                if not mon.close(got, want, scale if scale else 1):
                    problem = 'expected %r, got %r' % (float(want), got)
                else:
                    # the printed answer shows the value it carries (sign, digits of its own kind; C07's oracle)
                    why = judge_print(slot, k, cfg, sep, lex.currencies(), {})
                    if why:
                        problem = 'the value %r is printed as %r: %s' % (got, slot.get('out'), why)
                        form = 'print:' + form
            if problem is None:
                res.count('ok')
                if res.cases % 499 == 0:
                    res.sample({'separators': sep, 'text': text, 'expected': float(want), 'observed': mon.describe(slot)})
                continue
            res.violation('percent:%s:%s%s' % (form, 'money' if code else 'plain', '' if lang == 'en' else ':' + lang), '%r (%s): %s' % (text, lang, problem),
                          {'config': cfg, 'lang': lang, 'text': text, 'expected': repr(float(want)), 'observed': mon.describe(slot),
                           'ops': mon.gh.config_ops(cfg) + [{'op': 'execute', 'lang': lang, 'text': text}]})

"""C10 - durations: unit lengths, additivity, greedy printing and 'as' flooring. DESIGN.md 3.C10."""

from . import lex, mon

SPEC = {
    'rule': ('"N unit" for every unit spelling of en and tr with counts from the carry boundaries {0,1,2,11,12,13,29,30,31,59,60,61,364,365,'
             '366,10^6,...}, runs of 1-7 juxtaposed parts, runs joined by + and -, and "D as seconds|minutes|hours|days|weeks"; also with '
             'operands taken from variables. Oracle: unit lengths from the statement (month 30 d, year 365 d, 12 months = 1 year), value '
             'compared exactly in seconds; the printed text must be the greedy decomposition of the magnitude in the language\'s own words '
             '(singular iff the count is 1 where the language has a singular). non-trivial = every case; distinct = distinct (language, text)'),
    'min_nontrivial': 2000,
    'budget_s': {'quick': 30, 'thorough': 300},
    'assumptions': ['counts are non-negative integers <= 10^6 per part', 'a zero duration prints as the empty string (observed convention, not judged)'],
}

ORDER = ['year', 'month', 'week', 'day', 'hour', 'minute', 'second']
LEN = lex.DUR_LEN
COUNTS = [0, 1, 1, 2, 3, 5, 6, 7, 10, 11, 12, 13, 23, 24, 25, 29, 30, 31, 59, 60, 61, 90, 100, 364, 365, 366, 729, 730, 1000, 10**6]


def part_seconds(n, unit):
    if n < 0:
        return -part_seconds(-n, unit)          # '-14 months' is minus (one year and two months)
    if unit == 'month':
        return ((n // 12) * 365 + (n % 12) * 30) * 86400
    return n * LEN[unit]


def expected_print(secs, lang):
    fmt = lex.duration_format(lang)
    rem = abs(secs)
    parts = []
    for u in ORDER:
        if u == 'second':
            c = rem
        else:
            c = rem // LEN[u]
            rem = rem % LEN[u]
        if c > 0:
            one, many = fmt[u]
            if c == 1 and one:
                parts.append(one)
            else:
                parts.append(many.replace('{%s}' % u, str(c)))
    return ' '.join(parts)


def gen_run(rng, words, maxparts=7):
    """-> (text, seconds)"""
    n = rng.choice([1, 1, 1, 2, 2, 3, 4, 5, 6, 7][:maxparts + 3])
    n = min(n, maxparts)
    units = list(words)
    parts = []
    total = 0
    for _ in range(n):
        u = rng.choice(units)
        c = rng.choice(COUNTS) if rng.random() < 0.8 else rng.randint(0, 10**rng.randint(1, 6))
        w = rng.choice(words[u])
        if rng.random() < 0.08 and c > 0:
            c = -c                               # a minus written directly in front of the count: the part is subtracted
        parts.append('%d %s' % (c, w))
        total += part_seconds(c, u)
    return ' '.join(parts), total


BOUNDARY_M = [1, 2, 11, 12, 13, 29, 30, 31, 59, 60, 61, 364, 365, 366, 10**6]
AS_COUNTS = [0, 1, 2, 3, 6, 7, 8, 13, 14, 23, 24, 25, 29, 30, 31, 59, 60, 61, 89, 90, 100, 167, 168, 169, 364, 365, 366, 1000, 1439, 1440, 1441, 10000]


def systematic_cases(langs, shard, nshards):
    k = 0
    for lang in langs:
        words = lex.duration_words(lang)
        conv = [x for x in lex.word_group(lang, 'conversion_group') if x in ('as', 'to', 'in', 'into')] if lex.word_group(lang, 'conversion_group') else []
        if 'second' not in words:
            continue
        for u in ORDER:
            for m in BOUNDARY_M:
                for delta in (-1, 0, 1):
                    k += 1
                    if k % nshards != shard:
                        continue
                    n = m * LEN[u] + delta
                    yield (lang, '%d %s' % (n, words['second'][-1]), 'run', n)
        for src in ORDER:
            if src not in words:
                continue
            for tgt in ('second', 'minute', 'hour', 'day', 'week'):
                if not conv or tgt not in words:
                    continue
                for c in AS_COUNTS:
                    k += 1
                    if k % nshards != shard:
                        continue
                    secs = part_seconds(c, src)
                    yield (lang, '%d %s %s %s' % (c, words[src][-1], conv[k % len(conv)], words[tgt][-1]), 'as-' + tgt, (secs // LEN[tgt]) * LEN[tgt])


def run_shard(ctx):
    rng = ctx.rng
    res = ctx.res
    drv = ctx.driver(rw=True)
    langs = [l for l in lex.languages() if lex.duration_words(l)]
    cfg = mon.cfg_with()
    systematic = systematic_cases(langs, ctx.shard, ctx.nshards)
    while not ctx.out_of_time():
        items, meta = [], []
        for _ in range(150):
            e = next(systematic, None) if rng.random() < 0.5 else None
            if e is not None:
                # systematic part: every carry boundary m*len(U)+{-1,0,1} written in seconds, and every (source unit, target unit,
                # count) of the 'as' flooring grid, in every language
                lang, text, cls, want = e
                res.count('systematic_cases')
                res.cover('systematic case', '%s|%s' % (lang, text))
                items.append((lang, text))
                meta.append((lang, text, cls, want))
                continue
            lang = rng.choice(langs)
            words = lex.duration_words(lang)
            conv = lex.word_group(lang, 'conversion_group')
            r = rng.random()
            if r < 0.04:
                # many terms on one line (each literal part needs its own rewrite): + - and juxtaposition, 8..40 parts
                n = rng.choice([8, 12, 15, 16, 17, 18, 20, 24, 31, 32, 33, 40])
                how = rng.choice(['+', '-', 'juxt'])
                parts = []
                want = 0
                for k_ in range(n):
                    u = rng.choice(['hour', 'minute', 'second', 'day'])
                    c_ = rng.choice([1, 2, 15, 30, 45, 90])
                    parts.append('%d %s' % (c_, rng.choice(words[u])))
                    v = part_seconds(c_, u)
                    want = v if k_ == 0 else (want - v if how == '-' else want + v)
                text = (' %s ' % how).join(parts) if how != 'juxt' else ' '.join(parts)
                cls = 'long-' + {'+': 'sum', '-': 'difference', 'juxt': 'run'}[how]
            elif r < 0.35:
                text, secs = gen_run(rng, words)
                cls = 'run'
                want = secs
            elif r < 0.65:
                text, secs = gen_run(rng, words, 3)
                cls = 'sum'
                want = secs
                for _k in range(rng.randint(1, 3)):
                    op = rng.choice('+-')
                    t2, s2 = gen_run(rng, words, 3)
                    text += ' %s %s' % (op, t2)
                    want = want + s2 if op == '+' else want - s2
            elif r < 0.9 and conv:
                t1, secs = gen_run(rng, words, 3)
                tgt = rng.choice(['second', 'minute', 'hour', 'day', 'week'])
                w = rng.choice(words[tgt])
                c = rng.choice([x for x in conv if x in ('as', 'to', 'in', 'into')] or conv)
                text = '%s %s %s' % (t1, c, w)
                want = (abs(secs) // LEN[tgt]) * LEN[tgt]
                cls = 'as-' + tgt
            else:
                # through variables
                t1, s1 = gen_run(rng, words, 3)
                t2, s2 = gen_run(rng, words, 2)
                op = rng.choice('+-')
                form = rng.randrange(4)
                if form == 0:
                    text = 'zq = %s\nwv = %s\nzq %s wv' % (t1, t2, op)
                    want = s1 + s2 if op == '+' else s1 - s2
                elif form == 1:
                    text = 'zq = %s\nzq %s' % (t1, t2)                      # a duration held by a name, written next to another one
                    want = s1 + s2
                elif form == 2 and rng.random() < 0.5:
                    t3, s3 = gen_run(rng, words, 2)
                    text = 'zq = %s\nwv = %s\nmk = %s\nzq wv mk' % (t1, t2, t3)          # three (and, below, two) names side by side
                    want = s1 + s2 + s3
                elif form == 2:
                    text = 'zq = %s\nwv = %s\nzq wv' % (t1, t2)
                    want = s1 + s2
                else:
                    t0, s0 = gen_run(rng, words, 2)
                    text = 'zq = %s\n%s %s zq %s' % (t1, t0, op, t2)
                    want = s0 + (s1 + s2) if op == '+' else s0 - (s1 + s2)
                cls = 'variables'
            items.append((lang, text))
            meta.append((lang, text, cls, want))
        rs = mon.run_lines(drv, cfg, items, dates=False)
        for (lang, text, cls, want), r in zip(meta, rs):
            slot = mon.last_slot(r)
            res.cases += 1
            res.note_rw(r)
            res.count('class:' + cls.split('-')[0])
            res.count('lang:' + lang)
            res.distinct.add(lang, text)
            problem = None
            if mon.kind(slot) != 'duration':
                problem = 'expected a duration of %d s, got %s' % (want, mon.describe(slot))
            elif slot['v']['secs'] != want:
                problem = 'expected %d s, got %d s (%r)' % (want, slot['v']['secs'], slot['out'])
            else:
                exp = expected_print(want, lang)
                if slot['out'] != exp:
                    problem = '%d s prints %r, expected %r' % (want, slot['out'], exp)
                    cls = 'print'
            if problem is None:
                res.count('ok')
                if res.cases % 499 == 0:
                    res.sample({'lang': lang, 'text': text, 'seconds': want, 'printed': slot['out']})
                continue
            res.violation('duration:%s:%s' % (cls, lang), '%r (%s): %s' % (text, lang, problem),
                          {'config': cfg, 'lang': lang, 'text': text, 'expected_seconds': want, 'observed': mon.describe(slot),
                           'ops': mon.gh.config_ops(cfg) + [{'op': 'execute', 'lang': lang, 'text': text}]})

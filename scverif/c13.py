"""C13 - based integer literals and base conversion round-trip. DESIGN.md 3.C13."""

import math

from . import mon
from .numfmt import SEP_CONFIGS, check_print, render_literal

SPEC = {
    'rule': ('literals 0x / 0o / 0b of 1..16 / 21 / 63 digits (values < 2^63), alone, in + - * with a second operand, and as source of '
             '"N [to|as] hex|hexadecimal|octal|binary|decimal" (also without connective); decimal and fractional N (halves, thirds); '
             'boundary integers 2^k, 2^k+-1 (k<=62), 0..4096, log-uniform random up to 2^53; a name holding the fractional result of an operation on a based literal, then converted; based literals glued to a unit or duration word (0x400mb, 0b11days); every printed based literal is fed back '
             '(round trip) when the integer is <= 2^53. Oracle: Python int()/format(). non-trivial = every case; distinct = distinct text'),
    'min_nontrivial': 2000,
    'budget_s': {'quick': 30, 'thorough': 300},
    'assumptions': ['non-negative integers only (the statement covers those)', 'beyond 2^53 only "evaluates to the nearest double" is judged',
                    '"in"/"into" after a bare number read as inches (unit literal) and are not used'],
}

BASES = {'hex': 16, 'hexadecimal': 16, 'octal': 8, 'binary': 2, 'decimal': 10}
TYPE_OF = {16: 'Hexadecimal', 8: 'Octal', 2: 'Binary', 10: 'Decimal'}


def lit(n, base, rng):
    if base == 16:
        s = '%X' % n if rng.random() < 0.5 else '%x' % n
        if rng.random() < 0.3:
            s = ''.join(rng.choice([c.lower(), c.upper()]) for c in s)
        return rng.choice(['0x', '0X']) + s
    if base == 8:
        return rng.choice(['0o', '0O']) + '%o' % n
    if base == 2:
        return rng.choice(['0b', '0B']) + bin(n)[2:]
    return str(n)


def show(n, base):
    if base == 16:
        return '0x%X' % n
    if base == 8:
        return '0o%o' % n
    if base == 2:
        return '0b' + bin(n)[2:]
    return None


def gen_int(rng, limit_bits=63):
    r = rng.random()
    if r < 0.3:
        k = rng.randint(0, limit_bits)          # k = limit_bits: the largest literal the reader accepts (2^63 - 1 after the clamp below)
        n = (1 << k) + rng.choice([-1, 0, 1])
    elif r < 0.55:
        n = rng.randint(0, 4096)
    elif r < 0.9:
        n = int(2 ** rng.uniform(0, 53))
    else:
        n = rng.randint(0, (1 << limit_bits) - 1)
    return max(0, min(n, (1 << limit_bits) - 1))


# (word, kind, unit name or seconds per one)
GLUED_WORDS = [('mb', 'unit', None), ('kg', 'unit', None), ('km', 'unit', None), ('gb', 'unit', None), ('days', 'duration', 86400), ('weeks', 'duration', 604800),
               ('hours', 'duration', 3600), ('minutes', 'duration', 60), ('seconds', 'duration', 1)]


def half_away(x):
    return int(math.floor(abs(x) + 0.5)) * (1 if x >= 0 else -1)


def run_shard(ctx):
    rng = ctx.rng
    res = ctx.res
    drv = ctx.driver()
    seq = iter(range(ctx.shard, 4097, ctx.nshards))
    # a user unit family whose conversion codes are written with based literals ({value} * 0x10): they are numbers like any other
    fam_setup = ([{'op': 'new_calc', 'c': 6, 'seg': True}, {'op': 'add_type', 'c': 6, 'name': 'disk'},
                  {'op': 'add_type_item', 'c': 6, 'name': 'disk', 'index': 1, 'format': '{value} sector', 'parse': ['{NUMBER:value} {TEXT:type:sectorq}'], 'up': '{value} / 0x10',
                   'down': '{value}', 'names': ['sectorq']},
                  {'op': 'add_type_item', 'c': 6, 'name': 'disk', 'index': 2, 'format': '{value} cluster', 'parse': ['{NUMBER:value} {TEXT:type:clusterq}'], 'up': '{value} / 0b100',
                   'down': '{value} * 0x10', 'names': ['clusterq']},
                  {'op': 'add_type_item', 'c': 6, 'name': 'disk', 'index': 3, 'format': '{value} track', 'parse': ['{NUMBER:value} {TEXT:type:trackq}'], 'up': '{value}',
                   'down': '{value} * 0o4', 'names': ['trackq']}])
    drv.run(fam_setup)
    fam_probes = [('3 clusterq to sectorq', 48.0), ('64 sectorq to clusterq', 4.0), ('2 trackq to sectorq', 128.0), ('128 sectorq to trackq', 2.0), ('0x3 clusterq to sectorq', 48.0)]
    while not ctx.out_of_time():
        sep = rng.choice(SEP_CONFIGS)
        # the number format settings (digits, zero-fraction removal, fraction rounding) must not influence a base conversion
        digits, rm, rnd = rng.choice([(2, True, True), (2, True, True), (2, True, False), (0, False, True), (4, False, False), (3, True, False)])
        cfg = mon.cfg_with(dec=sep[0], thou=sep[1], digits=digits, rm=rm, round=rnd)
        res.count('number_config:rounding-%s' % ('on' if rnd else 'off'))
        items, meta = [], []
        for _ in range(150):
            r = rng.random()
            n = next(seq, None) if rng.random() < 0.2 else None
            if n is None:
                n = gen_int(rng)
            src = rng.choice([16, 8, 2, 10])
            if r < 0.25:
                if src == 10:
                    src = 16
                text = lit(n, src, rng)
                want_n, want_base, cls = n, src, 'literal'
            elif r < 0.65:
                word = rng.choice(list(BASES))
                tgt = BASES[word]
                conn = rng.choice(['to ', 'as ', '', 'to ', 'TO ', 'As '])
                if src == 10 and rng.random() < 0.3 and n < 2**40:
                    frac = rng.choice(['5', '25', '75', '49', '50', '51', '333', '999'])
                    text = '%s %s%s' % (render_literal('%d.%s' % (n, frac), sep), conn, word)
                    want_n = half_away(float('%d.%s' % (n, frac)))
                    cls = 'fraction-to-base'
                else:
                    text = '%s %s%s' % (lit(n, src, rng), conn, word)
                    want_n = n
                    cls = 'to-base' if conn else 'to-base-no-connective'
                want_base = tgt
            elif r < 0.70:
                # a name that holds the (possibly fractional) result of an operation on a based literal, then '<name> to <base>': rounded to the nearest integer
                if src == 10:
                    src = rng.choice([16, 8, 2])
                n = gen_int(rng, 20)
                op, mt, mv = rng.choice([('/', '2', 2.0), ('/', '4', 4.0), ('/', '8', 8.0), ('*', render_literal('0.5', sep), 0.5), ('*', render_literal('1.5', sep), 1.5),
                                         ('*', render_literal('0.75', sep), 0.75), ('+', render_literal('0.5', sep), 0.5), ('+', render_literal('0.75', sep), 0.75), ('*', '3', 3.0)])
                val = {'*': n * mv, '/': n / mv, '+': n + mv}[op]
                word = rng.choice(list(BASES))
                conn = rng.choice(['to ', 'as ', '', 'to '])
                text = 'zq = %s %s %s\nzq %s%s' % (lit(n, src, rng), op, mt, conn, word)
                want_n, want_base, cls = half_away(val), BASES[word], 'name-with-based-result-to-base'
            elif r < 0.74:
                # a based literal directly in front of a unit or duration word, like 1024mb or 3days
                if src == 10:
                    src = rng.choice([16, 8, 2])
                n = rng.randint(1, 4096)
                if src == 16 and n % 16 > 9:
                    n -= 6          # a hex literal that ends in a letter runs into the word (0xCseconds): which letters are digits is not stated
                word = rng.choice(GLUED_WORDS if src != 16 else [w for w in GLUED_WORDS if w[0][0] not in 'abcdef'])
                text = lit(n, src, rng) + word[0]
                want_n, want_base, cls = (n, word), src, 'glued-word'
            elif r < 0.8:
                # a based literal takes part in a chain of operations like any other number: 0xA / 4 * 2, also through a variable
                if src == 10:
                    src = rng.choice([16, 8, 2])
                n = gen_int(rng, 20)
                ops_ = rng.choice(['*/', '*/', '+-'])
                val = float(n)
                parts = [lit(n, src, rng)]
                okc = True
                for _k in range(rng.randint(2, 3)):
                    op = rng.choice(ops_)
                    if op == '/' and len(parts) > 1 and parts[-2] == '/':
                        op = '*'            # 'a / b / c' may be a day/month/year date (C02, C09)
                    form = rng.random()
                    m = rng.choice([2, 3, 4, 5, 7, 8, 10, 16]) if form < 0.6 else gen_int(rng, 10) + 1
                    if form < 0.8:
                        mt, mv = lit(m, rng.choice([10, 10, 16, 8, 2]), rng), float(m)
                    else:
                        fr = rng.choice(['5', '25', '75', '125'])
                        mt, mv = render_literal('%d.%s' % (m, fr), sep), float('%d.%s' % (m, fr))
                    val = {'*': val * mv, '/': val / mv, '+': val + mv, '-': val - mv}[op]
                    if val < 0:
                        okc = False
                    parts += [op, mt]
                if not okc:
                    continue
                if rng.random() < 0.4:
                    text = 'zq = %s\nzq %s' % (' '.join(parts[:3]), ' '.join(parts[3:]))
                else:
                    text = ' '.join(parts)
                want_n, want_base, cls = val, src, 'arith-chain'
            else:
                op = rng.choice('+-*')
                if src == 10:
                    src = rng.choice([16, 8, 2])
                m = gen_int(rng, 31)
                n = gen_int(rng, 31)
                if op == '-' and m > n:
                    n, m = m, n
                b2 = rng.choice([16, 8, 2, 10])
                glue = rng.choice(['%s %s %s', '%s %s %s', '%s%s%s', '%s %s%s', '%s%s %s'])          # the operator may be written without blanks
                text = glue % (lit(n, src, rng), op, lit(m, b2, rng))
                want_n = {'+': n + m, '-': n - m, '*': n * m}[op]
                want_base, cls = src, 'arith' + op
                if op == '+' and rng.random() < 0.25 and m >= n:
                    # a sign written directly in front of the first literal: -A + B
                    text = '-%s %s %s' % (lit(n, src, rng), op, lit(m, b2, rng))
                    want_n = m - n
                    cls = 'arith-leading-sign'          # only the value is judged (which base the result is shown in is not stated)
            items.append(('en', text))
            meta.append((text, want_n, want_base, cls))
        for (text, want), r in zip(fam_probes, drv.run([{'op': 'execute', 'c': 6, 'lang': 'en', 'text': t} for t, _ in fam_probes])):
            if 'lines' not in r and 'panic' not in r:
                drv.run(fam_setup)
                break
            slot = mon.slot0(r)
            res.cases += 1
            res.count('class:based-literals-in-unit-codes')
            if mon.kind(slot) == 'unit' and mon.fval(slot) == want:
                res.count('ok')
            else:
                res.violation('base:in-unit-code', 'with the unit codes {value} / 0x10, {value} * 0x10, {value} / 0b100, {value} * 0o4 the line %r should give %r, got %s' % (text, want, mon.describe(slot)),
                              {'lang': 'en', 'text': text, 'ops': fam_setup + [{'op': 'execute', 'c': 6, 'lang': 'en', 'text': text}]})
        rs = mon.run_lines(drv, cfg, items, dates=False)
        second, second_meta = [], []
        for (text, want_n, want_base, cls), r in zip(meta, rs):
            slot = mon.last_slot(r) if '\n' in text else mon.slot0(r)
            res.cases += 1
            res.count('class:' + cls)
            res.distinct.add(sep, text)
            problem = None
            if cls == 'glued-word':
                n_, (w_, k_, per_) = want_n
                if k_ == 'unit':
                    good = mon.kind(slot) == 'unit' and mon.fval(slot) == float(n_) and w_ in slot['v'].get('names', [])
                else:
                    good = mon.kind(slot) == 'duration' and slot['v'].get('secs') == n_ * per_
                if good:
                    res.count('ok')
                else:
                    res.violation('base:glued-word:%s' % TYPE_OF[want_base], '%r should be %d %s like the decimal spelling %d%s, got %s' % (text, n_, w_, n_, w_, mon.describe(slot)),
                                  {'config': cfg, 'lang': 'en', 'text': text, 'observed': mon.describe(slot), 'ops': mon.gh.config_ops(cfg) + [{'op': 'execute', 'lang': 'en', 'text': text}]})
                continue
            if mon.kind(slot) != 'number':
                problem = 'expected a number, got %s' % mon.describe(slot)
            else:
                got = mon.fval(slot)
                wantf = float(want_n)
                if got != wantf:
                    problem = 'value %r, expected %r' % (got, wantf)
                elif cls == 'arith-leading-sign':
                    pass
                elif slot['v']['t'] != TYPE_OF[want_base]:
                    problem = 'number kept base %s, expected %s' % (slot['v']['t'], TYPE_OF[want_base])
                else:
                    out = slot['out']
                    # the literals just below 2^63 are held as the double 2^63 and print as the largest literal the reader accepts
                    shown_int = min(int(wantf), 2**63 - 1)
                    if wantf != shown_int and cls == 'arith-chain':
                        res.count('fractional_based_results_print_not_judged')
                    elif want_base == 10:
                        why = check_print(wantf, out, sep, digits, rm, rnd)
                        if why:
                            problem = 'prints %r: %s' % (out, why)
                    else:
                        exp = show(shown_int, want_base)
                        if out != exp:
                            problem = 'prints %r, expected %r' % (out, exp)
                        else:
                            second.append(('en', out))
                            second_meta.append((text, out, shown_int, want_base))
            if problem is None:
                res.count('ok')
                if res.cases % 499 == 0:
                    res.sample({'separators': sep, 'text': text, 'printed': slot['out']})
                continue
            big = 'big' if want_n >= 2**31 else 'small'
            if not rnd:
                big += ':number-rounding-off'
            res.violation('base:%s:%s:%s' % (cls, TYPE_OF[want_base], big), '%r: %s' % (text, problem),
                          {'config': cfg, 'lang': 'en', 'text': text, 'expected_integer': want_n, 'observed': mon.describe(slot),
                           'ops': mon.gh.config_ops(cfg) + [{'op': 'execute', 'lang': 'en', 'text': text}]})
        if second:
            rs2 = mon.run_lines(drv, cfg, second, dates=False)
            for (text, out, n, base), r in zip(second_meta, rs2):
                slot = mon.slot0(r)
                res.cases += 1
                res.count('class:round-trip')
                res.distinct.add(sep, 'rt', out)
                ok = mon.kind(slot) == 'number' and mon.fval(slot) == float(n) and slot['out'] == out
                if ok:
                    res.count('ok')
                else:
                    res.violation('base:round-trip:%s' % TYPE_OF[base], 'printed form %r of %r read back as %s' % (out, text, mon.describe(slot)),
                                  {'config': cfg, 'lang': 'en', 'text': out, 'first_line': text, 'observed': mon.describe(slot),
                                   'ops': mon.gh.config_ops(cfg) + [{'op': 'execute', 'lang': 'en', 'text': out}]})

"""C15 - printed results can be typed back in. DESIGN.md 3.C15."""

import re

from . import lex, mon
from .c07 import gen_value
from .c09 import gen_date, spell
from .c10 import gen_run
from .c11 import gen_time, gen_zone
from .numfmt import SEP_CONFIGS, canon_of_float, render_literal

SPEC = {
    'rule': ('one pool of source lines per kind (numbers and percentages from rounding-boundary families, money in every currency whose printed '
             'symbol is itself a reader key, durations with all components, times with zone, dates in both year forms, quantities of all '
             'configured units, integers in the three bases; negative money, percentages and quantities as results of a subtraction) x 4 separator conventions x decimal digits {0, 2, 4} x {en, tr}; the printed '
             'form O1 of each result is fed back as a new line under the same configuration and language and must print as O1 again with '
             'the same kind. non-trivial = a round trip of a non-empty print; distinct = distinct (configuration, language, kind, O1)'),
    'min_nontrivial': 2000,
    'budget_s': {'quick': 35, 'thorough': 360},
    'assumptions': ['money is restricted, as the statement is, to currencies whose printed symbol is a configured symbol, code or alias as the reader compares them',
                    'date-times are not in the statement\'s list and are not judged', 'a zero duration prints as the empty string and is skipped'],
}

KINDS = ['number', 'percent', 'money', 'duration', 'time', 'date', 'unit', 'base']


def readable_currencies():
    out = []
    with_alias = set(lex.currency_alias().values())
    for code, info in lex.currencies().items():
        # the printed symbol is a reader key, or the currency has a configured alias (the statement: "a currency that has a configured
        # symbol or alias"; DKK prints 'kr.' and is typed back through its alias 'kr')
        if lex.read_currency(info['symbol']) is not None or code in with_alias:
            out.append(code)
    return sorted(out)


ENERGY = [{'op': 'new_calc', 'c': 7, 'seg': True}, {'op': 'add_type', 'c': 7, 'name': 'energy'},
          {'op': 'add_type_item', 'c': 7, 'name': 'energy', 'index': 1, 'format': '{value} Wh', 'parse': ['{NUMBER:value} {TEXT:type:Wh}', '{NUMBER:value} {TEXT:type:watthour}'],
           'up': '{value} / 1000', 'down': '{value}', 'names': ['Wh', 'watthour']},
          {'op': 'add_type_item', 'c': 7, 'name': 'energy', 'index': 2, 'format': '{value} kWh', 'parse': ['{NUMBER:value} {TEXT:type:kWh}', '{NUMBER:value} {TEXT:type:kilowatthour}'],
           'up': '{value} / 1000', 'down': '{value} * 1000', 'names': ['kWh', 'kilowatthour']},
          {'op': 'add_type_item', 'c': 7, 'name': 'energy', 'index': 3, 'format': '{value} MWh', 'parse': ['{NUMBER:value} {TEXT:type:MWh}', '{NUMBER:value} {TEXT:type:megawatthour}'],
           'up': '{value}', 'down': '{value} * 1000', 'names': ['MWh', 'megawatthour']}]


def user_units(ctx, drv, cfg, sep, lang):
    """unit quantities of a family the application registered, whose printed unit words carry capitals (kWh)"""
    rng, res = ctx.rng, ctx.res
    setup = ENERGY[:1] + mon.gh.config_ops(cfg, 7, seg=False) + ENERGY[1:]
    src = []
    for _ in range(10):
        _, x = gen_value(rng, 2)
        lit = render_literal(canon_of_float(abs(x)), sep)
        w = rng.choice(['watthour', 'kilowatthour', 'megawatthour'])
        src.append(rng.choice(['%s %s' % (lit, w), '%s %s to %s' % (lit, w, rng.choice(['Wh', 'kWh', 'MWh', 'kilowatthour']))]))
    r1 = drv.run(setup + [{'op': 'execute', 'c': 7, 'lang': lang, 'text': t} for t in src])[len(setup):]
    outs = [(t, mon.slot0(r)) for t, r in zip(src, r1)]
    outs = [(t, s_) for t, s_ in outs if mon.kind(s_) == 'unit' and s_.get('out')]
    r2 = drv.run([{'op': 'execute', 'c': 7, 'lang': lang, 'text': s_['out']} for _, s_ in outs])
    for (t, first), r in zip(outs, r2):
        slot = mon.slot0(r)
        res.cases += 1
        res.count('kind:unit-registered-by-the-application')
        res.distinct.add('uunit', sep, lang, first['out'])
        if mon.kind(slot) == 'unit' and slot.get('out') == first['out']:
            res.count('ok')
        else:
            res.violation('roundtrip:unit:registered-by-the-application', 'the printed form %r (from %r) of a unit registered with add_dynamic_type_item gives %s when typed back (separators %r, %s)' % (
                first['out'], t, mon.describe(slot), sep, lang),
                {'config': cfg, 'lang': lang, 'text': first['out'], 'source': t, 'ops': setup + [{'op': 'execute', 'c': 7, 'lang': lang, 'text': t}, {'op': 'execute', 'c': 7, 'lang': lang, 'text': first['out']}]})


def run_shard(ctx):
    rng = ctx.rng
    res = ctx.res
    clock_name, epoch = ctx.clock_for_shard()
    today = mon.virtual_now(epoch).date()
    drv = ctx.driver(epoch)
    zones = sorted(lex.admissible_zones('en').items())
    codes = readable_currencies()
    units = lex.unit_table()
    res.notes.append('shard %d: %d currencies print a symbol that is a reader key: %s' % (ctx.shard, len(codes), ' '.join(codes)))
    while not ctx.out_of_time():
        sep = rng.choice(SEP_CONFIGS)
        d = rng.choice([0, 2, 4])
        lang = rng.choice(['en', 'en', 'tr'])
        dz = rng.choice(['UTC', 'UTC', 'EST', 'IST'])
        cfg = mon.cfg_with(dec=sep[0], thou=sep[1], digits=d, pdigits=d, rm=rng.random() < 0.6, tz=dz)
        words = lex.duration_words(lang)
        items, meta = [], []
        for _ in range(120):
            kind = rng.choice(KINDS)
            if kind == 'number':
                _, x = gen_value(rng, d)
                text = '[NUMBER:%s]' % canon_of_float(x)
            elif kind == 'percent':
                _, x = gen_value(rng, d)
                text = '[PERCENT:%s]' % canon_of_float(abs(x))
                if rng.random() < 0.2:
                    text = '%%5 - %%%s' % render_literal(canon_of_float(abs(x) + 6), sep)          # a negative percentage as the result of a subtraction
            elif kind == 'money':
                code = rng.choice(codes)
                _, x = gen_value(rng, lex.currencies()[code]['decimalDigits'])
                text = '%s %s' % (render_literal(canon_of_float(abs(x)), sep), code)
                if rng.random() < 0.25:
                    # a negative amount (a debt) as the result of a subtraction
                    text = '1 %s - %s %s' % (code, render_literal(canon_of_float(abs(x) + 2), sep), code)
            elif kind == 'duration':
                text, _ = gen_run(rng, words)
            elif kind == 'time':
                tt, _ = gen_time(rng)
                if lang == 'en' and rng.random() < 0.6:
                    z, _ = gen_zone(rng, zones)
                    text = '%s %s' % (tt, z)
                else:
                    text = tt
            elif kind == 'date':
                text, _ = spell(rng, lang, gen_date(rng, today), today)
                if rng.random() < 0.12 and 'year' in words:
                    # a date of the first centuries as the result of date arithmetic (typed directly, '1 jan 70' may mean another year)
                    import datetime as _dt
                    base = _dt.date(rng.randint(2000, 2030), rng.randint(1, 12), rng.randint(1, 28))
                    text, _ = spell(rng, lang, base, today, force_year=True)
                    text = '%s - %d %s' % (text, base.year - rng.choice([1, 5, 9, 10, 33, 70, 99, 100, 476, 999]), rng.choice(words['year']))
            elif kind == 'unit':
                u = rng.choice(units)
                _, x = gen_value(rng, 2)
                text = '[NUMBER:%s] %s' % (canon_of_float(abs(x)), rng.choice(u['spellings']))
                if rng.random() < 0.2:
                    text = '1 %s - %s %s' % (u['names'][0], render_literal(canon_of_float(abs(x) + 2), sep), u['names'][0])
            else:
                n = rng.choice([0, 1, 255, 4096, 65535, 2**31 - 1, rng.randint(0, 2**31 - 1), 2**31, 2**32 - 1, 2**32, 2**40 + 5, 2**53, rng.randint(2**31, 2**53)])
                if rng.random() < 0.1:
                    # a negative result kept in a base (the left operand decides the base)
                    m_ = rng.randint(1, 4096)
                    text = rng.choice(['0x%X - 0x%X', '0o%o - 0o%o', '0x%X - %d']) % (m_, m_ + rng.randint(1, 100000))
                elif lang == 'en':
                    text = '%d to %s' % (n, rng.choice(['hex', 'octal', 'binary']))
                else:
                    text = rng.choice(['0x%X' % n, '0o%o' % n, '0b' + bin(n)[2:]])
            items.append((lang, text))
            meta.append((kind, text))
        rs = mon.run_lines(drv, cfg, items)
        user_units(ctx, drv, cfg, sep, lang)
        second, smeta = [], []
        for (kind, text), r in zip(meta, rs):
            slot = mon.slot0(r)
            k = mon.kind(slot)
            want_k = {'base': 'number'}.get(kind, kind)
            if k != want_k or not slot.get('out'):
                res.count('source_lines_of_other_kind_or_empty_skipped')
                continue
            second.append((lang, slot['out']))
            smeta.append((kind, text, slot))
        rs2 = mon.run_lines(drv, cfg, second) if second else []
        for (kind, text, first), r in zip(smeta, rs2):
            o1 = first['out']
            slot = mon.slot0(r)
            res.cases += 1
            res.count('kind:' + kind)
            res.count('lang:' + lang)
            res.distinct.add(sep, d, cfg['rm'], dz, lang, kind, o1)
            k2 = mon.kind(slot)
            problem = None
            if k2 in ('err', 'abnormal', 'empty') or 'out' not in slot:
                problem = 'the printed form %r does not evaluate: %s' % (o1, mon.describe(slot))
            elif slot['out'] != o1:
                problem = 'the printed form %r prints as %r when typed back' % (o1, slot['out'])
            elif k2 != mon.kind(first):
                problem = 'the printed form %r of a %s reads back as a %s' % (o1, mon.kind(first), k2)
            if problem is None:
                res.count('ok')
                if res.cases % 499 == 0:
                    res.sample({'config': cfg, 'lang': lang, 'source': text, 'printed': o1, 'typed_back_prints': slot['out']})
                continue
            detail = kind
            if kind == 'money':
                code = first['v']['code'].lower()
                info = lex.currencies()[code]
                sym = info['symbol']
                if lex.read_currency(sym) not in (None, code):
                    detail = 'money:symbol-reads-as-another-currency'
                elif info['symbolOnLeft'] and sym.isalpha():
                    detail = 'money:letters-on-the-left'
                elif info['symbolOnLeft'] and info['spaceBetweenAmountAndSymbol']:
                    detail = 'money:symbol-on-the-left-with-blank'
                else:
                    detail = 'money:' + code
            elif kind == 'unit':
                detail = 'unit:%s' % first['v']['group']
            if kind == 'duration' and re.search(r'(^| )12 (months|ay)( |$)', o1):
                detail = 'duration:twelve-months-read-back-as-one-year'
            negative_based = kind == 'base' and mon.fval(first) < 0 and re.fullmatch(r'0x[8-9A-F][0-9A-F]{15}|0o1[0-7]{21}|0b1[01]{63}', o1) is not None
            if negative_based:
                detail = 'base:negative-result-printed-as-twos-complement'
            sig = 'roundtrip:%s' % detail
            if (kind in ('time', 'date', 'number', 'percent', 'base', 'unit') and not negative_based) or detail == 'duration':
                sig += ':' + lang
            res.violation(sig, '%s (from %r; separators %r, digits %d, zone %s, %s)' % (problem, text, sep, d, dz, lang),
                          {'config': cfg, 'lang': lang, 'text': o1, 'source': text, 'epoch': epoch,
                           'ops': mon.gh.config_ops(cfg) + [{'op': 'execute', 'lang': lang, 'text': text}, {'op': 'execute', 'lang': lang, 'text': o1}]})

"""The lexicon of the tree under test, read from /repo/src/json/config.json at run time
("configured ..." in the property statements), plus the definitions the statements fix
themselves (unit factors, duration lengths)."""

import json
import os
import re
from fractions import Fraction

from .core import REPO

_cfg = None


def config():
    global _cfg
    if _cfg is None:
        with open(os.path.join(REPO, 'src', 'json', 'config.json'), encoding='utf-8') as f:
            _cfg = json.load(f)
    return _cfg


def languages():
    return sorted(config()['languages'])


# ---------------------------------------------------------------- currencies

def _snapshot():
    """Facts about the world that config.json only transcribes - a currency's minor-unit digits, symbol and symbol placement, the UTC
    offset of a zone abbreviation - as they stand in the shipped tables at the pinned commit (scverif/tables_snapshot.json). The
    tables of the tree under test say which entries exist; for an entry both know, the snapshot wins, so one slipped entry among
    161 / 191 makes the oracle and the implementation disagree."""
    global _snap
    if _snap is None:
        with open(os.path.join(os.path.dirname(os.path.abspath(__file__)), 'tables_snapshot.json'), encoding='utf-8') as f:
            _snap = json.load(f)
    return _snap


_snap = None


def currencies():
    """lower-case code -> info dict (code, symbol, decimalDigits, symbolOnLeft, ...)"""
    snap = _snapshot()['currencies']
    out = {}
    for k, v in config()['currencies'].items():
        v = dict(v)
        known = snap.get(k.lower())
        if known is not None:
            v['symbol'], v['symbolOnLeft'], v['spaceBetweenAmountAndSymbol'], v['decimalDigits'] = known
        out[k.lower()] = v
    return out


def currency_alias():
    return dict(config()['currency_alias'])


def rates():
    return dict(config()['currency_rates'])


def read_currency(text):
    """Model of the reader: alias first, then code; case-insensitive. -> lower-case code or None"""
    t = text.lower()
    al = currency_alias()
    if t in al and al[t] in currencies():
        return al[t]
    if t in currencies():
        return t
    return None


def rated_codes():
    cur = currencies()
    return sorted(c for c in rates() if c in cur)


# ---------------------------------------------------------------- zones

ZONE_RE = re.compile(r'^[A-Z]{2,4}$')


def zones():
    """zone abbreviation -> offset in minutes: the entries of the tree under test, with the offsets of known abbreviations taken from
    the snapshot; an abbreviation the table has lost is still a zone"""
    snap = _snapshot()['timezones']
    out = {k: snap.get(k, v) for k, v in config()['timezones'].items()}
    for k, v in snap.items():
        out.setdefault(k, v)
    return out


def all_words(lang):
    """Every word that has a meaning of its own in `lang` (lower case)."""
    c = config()
    L = c['languages'][lang]
    words = set()
    for k in ('long_months', 'short_months', 'constant_pair', 'alias'):
        words.update(w.lower() for w in L[k])
    for grp in L['word_group'].values():
        words.update(w.lower() for w in grp)
    words.update(w.lower() for w in c['currency_alias'])
    words.update(w.lower() for w in c['currencies'])
    for t in c['types']:
        for it in t['items']:
            words.update(n.lower() for n in it['names'])
            for p in it['parse']:
                for m in re.finditer(r'\{TEXT:[^:}]+:([^}]+)\}', p):
                    words.add(m.group(1).lower())
                for w in re.findall(r'(?<![{:\w])([a-z]+)(?![}\w:])', p):
                    words.add(w)
    for rule in L['rules'].values():
        for p in rule['rules']:
            stripped = re.sub(r'\{[^}]*\}', ' ', p)
            words.update(w.lower() for w in re.findall(r'[^\W\d_]+', stripped))
            for m in re.finditer(r'\{TEXT:[^:}]+:([^}]+)\}', p):
                words.add(m.group(1).lower())
    words.update(['am', 'pm', 'gmt', 'unix', 'unixtime', 'unixtimestamp', 'date', 'hex', 'x', 'o', 'b'])
    return words


def admissible_zones(lang='en'):
    """Zone names the statement of C11 covers: expressible by the zone syntax, not a
    currency code or alias, not another word of the language."""
    words = all_words(lang)
    out = {}
    for name, off in zones().items():
        if not ZONE_RE.match(name):
            continue
        if read_currency(name) is not None:
            continue
        if name.lower() in words:
            continue
        out[name] = off
    return out


# ---------------------------------------------------------------- months, words

# What the words of the two shipped languages mean, independently of config.json: the tables of config.json say which words
# exist (the "configured" spellings), this dictionary says what an English or Turkish word means. A table entry that gives a
# known word another meaning (one wrong number among many) makes the oracle and the implementation disagree.
INDEPENDENT_MONTHS = {
    'en': {'january': 1, 'february': 2, 'march': 3, 'april': 4, 'may': 5, 'june': 6, 'july': 7, 'august': 8, 'september': 9, 'october': 10,
           'november': 11, 'december': 12, 'jan': 1, 'feb': 2, 'mar': 3, 'apr': 4, 'jun': 6, 'jul': 7, 'aug': 8, 'sep': 9, 'oct': 10, 'nov': 11, 'dec': 12},
    'tr': {'ocak': 1, 'şubat': 2, 'subat': 2, 'mart': 3, 'nisan': 4, 'mayıs': 5, 'mayis': 5, 'haziran': 6, 'temmuz': 7, 'ağustos': 8, 'agustos': 8,
           'eylül': 9, 'eylul': 9, 'ekim': 10, 'kasım': 11, 'kasim': 11, 'aralık': 12, 'aralik': 12,
           'oca': 1, 'şub': 2, 'sub': 2, 'mar': 3, 'nis': 4, 'may': 5, 'haz': 6, 'tem': 7, 'ağu': 8, 'agu': 8, 'eyl': 9, 'eki': 10, 'kas': 11, 'ara': 12},
}
INDEPENDENT_CONSTANTS = {      # word -> ConstantType number (1 day 2 week 3 month 4 year 5 second 6 minute 7 hour 8 today 9 tomorrow 10 yesterday 11 now)
    'en': {'day': 1, 'days': 1, 'week': 2, 'weeks': 2, 'month': 3, 'months': 3, 'year': 4, 'years': 4, 'second': 5, 'seconds': 5, 'minute': 6,
           'minutes': 6, 'hour': 7, 'hours': 7, 'today': 8, 'tomorrow': 9, 'yesterday': 10, 'now': 11},
    'tr': {'gün': 1, 'gun': 1, 'hafta': 2, 'ay': 3, 'yıl': 4, 'yil': 4, 'saniye': 5, 'dakika': 6, 'saat': 7, 'bugün': 8, 'bugun': 8, 'yarın': 9,
           'yarin': 9, 'dün': 10, 'dun': 10, 'şimdi': 11, 'simdi': 11},
}
INDEPENDENT_OPERATORS = {
    'en': {'add': '+', 'plus': '+', 'and': '+', 'with': '+', 'minus': '-', 'subtract': '-', 'without': '-', 'times': '*', 'multiplied': '*', 'mul': '*',
           'divide': '/', 'div': '/', 'multiply': '*', 'sum': '+', 'append': '+', 'exclude': '-'},
    'tr': {'kere': '*', 'çarpı': '*', 'carpi': '*', 'çarp': '*', 'carp': '*', 'ekle': '+', 'topla': '+', 'toplam': '+', 'eksi': '-', 'çıkar': '-',
           'cikar': '-', 'çıkart': '-', 'cikart': '-', 'artı': '+', 'arti': '+', 'bölü': '/', 'bolu': '/'},
}


def _constants(lang):
    """constant_pair of the language with the meanings of known words taken from the independent dictionary"""
    table = dict(config()['languages'][lang]['constant_pair'])
    known = INDEPENDENT_CONSTANTS.get(lang, {})
    out = {w: known.get(w, n) for w, n in table.items()}
    out.update(known)          # a known word that a table has lost is still a word of the language
    return out


def months(lang):
    """-> (long: {name: n}, short: {name: n}) every configured spelling (meaning of known names from the independent dictionary)"""
    L = config()['languages'][lang]
    known = INDEPENDENT_MONTHS.get(lang, {})
    lm = {w: known.get(w, n) for w, n in L['long_months'].items()}
    sm = {w: known.get(w, n) for w, n in L['short_months'].items()}
    for w, n in known.items():
        if w not in lm and w not in sm:
            (sm if len(w) <= 3 or w == 'sept' else lm)[w] = n      # a known name that a table has lost is still a month name
    return lm, sm


def print_months(lang):
    """The names used when printing: -> (long[1..12], short[1..12]). When a month has
    several configured spellings the statement does not say which is printed: all are
    returned as acceptable sets."""
    lm, sm = months(lang)
    long_ = {n: set() for n in range(1, 13)}
    short = {n: set() for n in range(1, 13)}
    for k, v in lm.items():
        long_[v].add(k)
    for k, v in sm.items():
        short[v].add(k)
    return long_, short


# ConstantType numbers of config.json
DUR_UNITS = {1: 'day', 2: 'week', 3: 'month', 4: 'year', 5: 'second', 6: 'minute', 7: 'hour'}
DUR_LEN = {'second': 1, 'minute': 60, 'hour': 3600, 'day': 86400, 'week': 7 * 86400,
           'month': 30 * 86400, 'year': 365 * 86400}
DAY_WORDS = {8: 'today', 9: 'tomorrow', 10: 'yesterday', 11: 'now'}


def duration_words(lang):
    """unit -> [spellings] for words that are both in duration_group and constant_pair"""
    L = config()['languages'][lang]
    grp = set(L['word_group'].get('duration_group', [])) | set(INDEPENDENT_CONSTANTS.get(lang, {}))
    out = {}
    for w, n in _constants(lang).items():
        if n in DUR_UNITS and w in grp:
            out.setdefault(DUR_UNITS[n], []).append(w)
    for v in out.values():
        v.sort()
    return out


def day_words(lang):
    out = {}
    for w, n in _constants(lang).items():
        if n in DAY_WORDS:
            out.setdefault(DAY_WORDS[n], []).append(w)
    return out


def operator_words(lang):
    """'+','-','*','/' -> [words]"""
    L = config()['languages'][lang]
    out = {}
    for w, target in L['alias'].items():
        m = re.match(r'^\[OPERATOR:(.)\]$', target)
        if m:
            out.setdefault(INDEPENDENT_OPERATORS.get(lang, {}).get(w, m.group(1)), []).append(w)
    return out


def word_group(lang, name):
    return list(config()['languages'][lang]['word_group'].get(name, []))


def duration_format(lang):
    """unit -> (singular format or None, plural format) as configured"""
    L = config()['languages'][lang]
    out = {}
    for item in L['format']['duration']:
        unit = item['duration_type'].lower()
        one, many = out.get(unit, (None, None))
        if item['count'].strip() == '1':
            one = item['format']
        else:
            many = item['format']
        out[unit] = (one, many)
    return out


def date_formats(lang):
    return dict(config()['languages'][lang]['format']['date'])


# ---------------------------------------------------------------- units

def unit_table():
    """[(group, index, names, format, spellings)] from config.json; spellings are the
    words that follow the amount in the item's parse patterns."""
    out = []
    for t in config()['types']:
        for it in t['items']:
            sp = []
            for p in it['parse']:
                m = re.search(r'\{TEXT:type:([^}]+)\}', p)
                if m:
                    sp.append(m.group(1))
                else:
                    w = re.sub(r'\{[^}]*\}', '', p).strip()
                    if w:
                        sp.append(w)
            out.append({'group': t['name'], 'index': it['index'], 'names': list(it['names']),
                        'format': it['format'], 'spellings': sp,
                        'digits': it.get('decimal_digits'), 'round': it.get('use_fract_rounding'),
                        'rm': it.get('remove_fract_if_zero')})
    return out


# Standard definitions (NOT read from config.json): size of each unit in a base unit of
# its kind. kind 'length' base mm, 'weight' base mg, 'memory' base bit.
_MM = Fraction(1)
_IN = Fraction(254, 10)
_MG = Fraction(1)
_OZ = Fraction(283495231, 10000000) * 1000   # grams -> mg
UNIT_DEF = {
    # length
    'mm': ('length', _MM), 'cm': ('length', _MM * 10), 'dm': ('length', _MM * 100), 'm': ('length', _MM * 1000),
    'dam': ('length', _MM * 10**4), 'hm': ('length', _MM * 10**5), 'km': ('length', _MM * 10**6),
    'in': ('length', _IN), 'ft': ('length', _IN * 12), 'yard': ('length', _IN * 36),
    'furlong': ('length', _IN * 36 * 220), 'mile': ('length', _IN * 36 * 1760),
    # weight
    'mg': ('weight', _MG), 'cg': ('weight', _MG * 10), 'dg': ('weight', _MG * 100), 'g': ('weight', _MG * 1000),
    'dag': ('weight', _MG * 10**4), 'hg': ('weight', _MG * 10**5), 'kg': ('weight', _MG * 10**6),
    'tonne': ('weight', _MG * 10**9),
    'oz': ('weight', _OZ), 'lb': ('weight', _OZ * 16), 'st': ('weight', _OZ * 16 * 14),
    # memory
    'bit': ('memory', Fraction(1)), 'byte': ('memory', Fraction(8)),
    'kb': ('memory', Fraction(8 * 1024)), 'mb': ('memory', Fraction(8 * 1024**2)), 'gb': ('memory', Fraction(8 * 1024**3)),
    'tb': ('memory', Fraction(8 * 1024**4)), 'pb': ('memory', Fraction(8 * 1024**5)), 'eb': ('memory', Fraction(8 * 1024**6)),
    'zb': ('memory', Fraction(8 * 1024**7)), 'yb': ('memory', Fraction(8 * 1024**8)),
}
GROUP_KIND = {'metric-length': 'length', 'imperial-unit-length': 'length', 'metric-weight': 'weight',
              'imperial-unit-weight': 'weight', 'memory': 'memory'}


def unit_key(item):
    """canonical key (first name) of a configured unit item"""
    return item['names'][0]

"""C17 - highlight (UI) tokens are well-formed character spans. DESIGN.md 3.C17."""

import re

from . import gen_expr as ge
from . import gen_hostile as gh
from . import lex, mon
from .numfmt import DEFAULT_SEP

SPEC = {
    'rule': ('(a) well-formedness on every line of hostile texts (C01 generators) and of the repository corpus with 0-5 multi-byte characters '
             '(2-, 3-, 4-byte, case-length-changing) inserted: 0 <= start < end <= number of characters, ordered by start, no overlap; '
             '(b) structured arithmetic lines (number literals incl. grouped / fractional / signed, operators, parentheses, optional comment, '
             'optional multi-byte variable name left of "=", optional multi-byte words before / between / after) for which the character span '
             'of every number literal, operator and the comment is known: a token of kind Number / Operator / Comment with exactly that span '
             'must be reported; based literals are number literals; a few lines are longer than 65 536 characters; percent literals with thousands groups and a fraction; typographic look-alikes (U+2212, U+00A0, ...) between tokens. non-trivial = a line with at least one token; distinct = distinct (language, line)'),
    'min_nontrivial': 3000,
    'budget_s': {'quick': 35, 'thorough': 360},
    'assumptions': ['magnitude suffixes are not used in the structured lines (whether "5k" is one literal or a number plus a symbol is not fixed by the statement)'],
}

WORDS = ['çay', 'şeker', 'İ', 'ß', 'ǰ', 'ΐ', 'ﬁ', '中', '日本', 'ığdır', 'ẞ', 'ŉ', 'éa', 'İstanbul', 'straße', '𝒳', 'ǅ',
         'amps', 'pmol', 'ampul', 'amperes', 'toplantı', 'kısıtlı ılık']      # words that begin like am / pm; words whose case folding changes the byte length
NAMES = ['çay', 'günlük ücret', 'zq', 'İndirim', '日本', 'ß']


def wellformed(ui, nchars):
    """-> None or reason"""
    prev_end = 0
    prev_start = -1
    for t in ui:
        s_, e_ = t[0], t[1]
        if not (0 <= s_ < e_ <= nchars):
            return 'token %r violates 0 <= start < end <= %d' % (t, nchars)
        if s_ < prev_start:
            return 'tokens not ordered by start at %r' % (t,)
        if s_ < prev_end:
            return 'token %r overlaps the previous one (which ends at %d)' % (t, prev_end)
        prev_start, prev_end = s_, e_
    return None


# typographic look-alikes of ASCII characters (what they mean is not stated; the tokens around them keep their positions)
LOOKALIKES = ['\u2212', '\u00a0', '\u00d7', '\u2026', '\u2009', '\u00f7', '\u201c12\u201d', '\u2013']
PERCENT_NUMBERS = ['12.500,75', '1.250,5', '1.000.000', '12,5', '7', '1.000', '2.345.678,25', '100', '0,5', '10.000,125']


def percent_line(rng):
    """a percentage whose number carries thousands groups and / or a fraction: the Number token covers all of it"""
    p_, n_ = rng.choice(PERCENT_NUMBERS), rng.choice(['10', '200', '1.500', '80,5'])
    lead = rng.choice(['', '', ' ', 'çay '])
    form = rng.randrange(5)
    if form == 0:
        parts = [(p_, 'Number'), ('% of ', None), (n_, 'Number')]
    elif form == 1:
        parts = [('%', None), (p_, 'Number'), (' of ', None), (n_, 'Number')]
    elif form == 2:
        parts = [(n_, 'Number'), (' ', None), ('+', 'Operator'), (' ', None), (p_, 'Number'), ('%', None)]
    elif form == 3:
        parts = [('oran ', None), ('=', 'Operator'), (' ', None), (p_, 'Number'), ('%', None)]
    else:
        parts = [(n_, 'Number'), (' ', None), ('-', 'Operator'), (' %', None), (p_, 'Number')]
    line, spans = lead, []
    for text, kind in parts:
        if kind:
            spans.append((len(line), len(line) + len(text), kind))
        line += text
    return line, spans


def structured(rng, marker='#'):
    """-> (line, [(start, end, kind)]) with character offsets"""
    if rng.random() < 0.1:
        return percent_line(rng)
    tree = ge.gen_tree(rng, rng.randint(1, 3), {'suffix': False, 'deep_paren': False, 'juxt': rng.random() < 0.3, 'group_sign': False})
    toks = ge.lex_tokens(tree, DEFAULT_SEP, grouped=rng.random() < 0.3)
    pieces = []   # (text, kind or None)
    if rng.random() < 0.35:
        pieces.append((rng.choice(NAMES), None))
        pieces.append(('=', 'Operator'))
    for i, (k, t) in enumerate(toks):
        if rng.random() < 0.15:
            pieces.append((rng.choice(WORDS), None))
        elif i and rng.random() < 0.06:
            pieces.append((rng.choice(LOOKALIKES), None))
        if k == 'num':
            if t[0].isdigit() and rng.random() < 0.12:
                # a based literal is a number literal too: its token covers the prefix and the digits
                n = rng.randint(0, 2 ** rng.choice([4, 8, 16, 40]))
                t = rng.choice(['0x%X' % n, '0X%x' % n, '0o%o' % n, '0b' + bin(n)[2:], '0B' + bin(n)[2:]])
            pieces.append((t, 'Number'))
        else:
            pieces.append((t, 'Operator'))
    if rng.random() < 0.2:
        pieces.append((rng.choice(WORDS), None))
    if rng.random() < 0.15:
        # a zone abbreviation or a month name at the end, directly behind a parenthesis or an operator (their parsers work on a
        # re-cased copy of the line): the tokens in front of it keep their kinds and spans
        tail = rng.choice(['EST', 'CET', 'UTC', 'march', 'Aralık', 'dec'])
        form = rng.randrange(3)
        if form == 0:
            pieces += [('(', 'Operator'), (tail, None), (')', 'Operator')]
        elif form == 1:
            pieces += [(rng.choice('+*'), 'Operator'), (tail, None)]
        else:
            pieces.append((tail, None))
    line = ''
    spans = []
    if rng.random() < 0.2:
        line += ' ' * rng.randint(1, 3)
    prev = None
    for text, kind in pieces:
        if prev is not None:
            need = True
            # blanks are optional only around operators / parentheses
            if (kind == 'Operator' and text in '()=*/') or (prev[1] == 'Operator' and prev[0] in '()=*/'):
                need = rng.random() < 0.6
            if prev[1] == 'Operator' and prev[0] in '+-' and kind == 'Number':
                need = True      # keep a detached sign detached
            if need:
                line += ' ' * rng.choice([1, 1, 1, 2])
        start = len(line)
        line += text
        if kind:
            spans.append((start, len(line), kind))
        prev = (text, kind)
    if rng.random() < 0.3:
        line += ' ' * rng.randint(0, 2)
        start = len(line)
        line += marker + rng.choice([' not', ' çay 12 + 5', '', ' 日本 march 5', ' €'])
        spans.append((start, len(line), 'Comment'))
    return line, spans


def run_shard(ctx):
    rng = ctx.rng
    res = ctx.res
    drv = ctx.driver(ui=True)
    cfg = mon.cfg_with()
    # a second calculator with a user-defined unit family whose words stand in front of / behind the number
    fam_setup = ([{'op': 'new_calc', 'c': 8, 'seg': True}] + gh.config_ops(cfg, 8, seg=False) + [{'op': 'add_type', 'c': 8, 'name': 'game'}] +
                 [{'op': 'add_type_item', 'c': 8, 'name': 'game', 'index': 1, 'format': 'lvl {value}', 'parse': ['{TEXT:type:lvl} {NUMBER:value}'], 'up': '{value} / 10',
                   'down': '{value}', 'names': ['lvl']},
                  {'op': 'add_type_item', 'c': 8, 'name': 'game', 'index': 2, 'format': '{value} tier', 'parse': ['{NUMBER:value} {TEXT:type:tier}'], 'up': '{value}',
                   'down': '{value} * 10', 'names': ['tier']}])
    drv.run(fam_setup)
    while not ctx.out_of_time():
        # number literals next to the words of a user-defined unit are still reported as Number tokens covering exactly their digits
        fam_lines = []
        for _ in range(12):
            n1, n2 = str(rng.randint(0, 99999)), str(rng.randint(1, 999))
            lead = rng.choice(['', '', 'çay ', '  '])
            tpl = rng.choice(['lvl {a}', 'lvl {a} + {b}', '{a} tier', 'lvl {a} to tier', '{a} tier + lvl {b}', '{b} * 2 + lvl {a}'])
            line = lead + tpl
            spans = []
            for key_, val in (('{a}', n1), ('{b}', n2)):
                if key_ in line:
                    at = line.index(key_)
                    line = line.replace(key_, val, 1)
                    spans.append((at, at + len(val), 'Number'))
            # positions of the first placeholder shift when the second is longer/shorter only if it comes first: recompute
            spans = [(m.start(), m.end(), 'Number') for m in re.finditer(r'[0-9]+', line)]
            fam_lines.append((line, spans))
        rs = drv.run([{'op': 'execute', 'c': 8, 'lang': 'en', 'text': ln} for ln, _ in fam_lines])
        for (line, spans), r in zip(fam_lines, rs):
            if 'lines' not in r:
                if 'panic' not in r:
                    drv.run(fam_setup)
                continue
            slot = r['lines'][0] if r['lines'] else None
            if slot is None:
                continue
            ui = slot.get('ui', [])
            res.cases += 1
            res.count('class:user-unit-lines')
            res.distinct.add('fam', line)
            why = wellformed(ui, len(line))
            sig = 'ui:malformed:user-unit' if why else None
            if not why:
                have = {(t[0], t[1]): t[2] for t in ui}
                for (s_, e_, kind) in spans:
                    if have.get((s_, e_)) != kind:
                        why = 'expected a Number token for %r at [%d, %d), tokens are %r' % (line[s_:e_], s_, e_, ui)
                        sig = 'ui:span:Number:user-unit'
                        break
            if why is None:
                res.count('ok')
            else:
                res.violation(sig, '%r on a calculator with the user units "lvl N" / "N tier": %s' % (line, why),
                              {'lang': 'en', 'text': line, 'tokens': ui, 'ops': [{'op': 'opts', 'ui': True}] + fam_setup + [{'op': 'execute', 'c': 8, 'lang': 'en', 'text': line}]})
        items, meta = [], []
        # one batch in ten on a calculator built from the configuration text with a second comment marker ('//' or ';;') in parse.comment
        marker = rng.choice(['//', ';;']) if rng.random() < 0.1 else '#'
        comment_edits = None
        if marker != '#':
            comment_edits = [['/parse/comment', lex.config()['parse']['comment'] + ['(?P<COMMENT>%s[^\r\n]{0,})[\r\n]{0,}' % marker]]]
            res.count('batches_with_a_second_comment_marker_in_the_configuration_text')
        for _ in range(150):
            r = rng.random()
            lang = rng.choice(['en', 'en', 'tr'])
            if r < 0.004:
                # more than 127 highlight tokens on a line that also uses a name (the second line of the text is judged)
                n = rng.choice([70, 130, 200, 300])
                terms = [str(rng.randint(0, 999)) for _ in range(n)]
                terms.insert(rng.randrange(n + 1), 'zq')
                line, spans = '', []
                for k_, t_ in enumerate(terms):
                    if k_:
                        line += ' '
                        spans.append((len(line), len(line) + 1, 'Operator'))
                        line += rng.choice('+*') + ' '
                    if t_ != 'zq':
                        spans.append((len(line), len(line) + len(t_), 'Number'))
                    line += t_
                meta.append((lang, 'zq = 5\n' + line, 'structured-many-tokens', spans))
            elif r < 0.006:
                # a line longer than 65 536 characters (positions that do not fit 16 bits): a long comment behind, or a long word in front of,
                # a structured line
                line, spans = structured(rng)
                spans = [sp for sp in spans if sp[2] != 'Comment']
                line = line.split('#')[0].rstrip()
                filler = rng.choice(['x', 'ab', 'ç', 'q r ']) * rng.choice([66000, 70000])
                filler = filler[:rng.choice([65537, 65600, 70007])].rstrip()
                if rng.random() < 0.5:
                    start = len(line) + 1
                    line = line + ' #' + filler
                    spans.append((start, len(line), 'Comment'))
                else:
                    filler = filler.replace(' ', 'z')
                    off = len(filler) + 1
                    line = filler + ' ' + line
                    spans = [(a + off, b + off, k) for a, b, k in spans]
                meta.append((lang, line, 'structured-very-long', spans))
            elif r < 0.45:
                line, spans = structured(rng, marker)
                meta.append((lang, line, 'structured', spans))
            elif r < 0.75:
                line = gh.unicode_line(rng) if rng.random() < 0.7 else rng.choice(gh.corpus())
                line = re.split(r'\r\n|\n', line)[0]
                meta.append((lang, line, 'corpus+multibyte', None))
            else:
                line = re.split(r'\r\n|\n', gh.hostile_line(rng))[0][:300]
                meta.append((lang, line, 'hostile', None))
        rs = mon.run_lines(drv, cfg, [(m[0], m[1]) for m in meta], config_edits=comment_edits)
        for (lang, line, cls, spans), r in zip(meta, rs):
            res.cases += 1
            res.count('class:' + cls)
            if cls == 'structured-many-tokens' and 'lines' in r and len(r['lines']) == 2:
                r = {'lines': r['lines'][1:]}
                line = line.split('\n', 1)[1]
            if 'lines' not in r or len(r['lines']) != 1:
                res.count('abnormal_results_skipped')     # belongs to C01
                continue
            slot = r['lines'][0]
            if slot is None:
                res.count('empty_slots')
                continue
            ui = slot.get('ui', [])
            nchars = len(line)
            multibyte = any(ord(c) > 127 for c in line)
            if ui:
                res.distinct.add(lang, line)
            res.count('tokens_checked', len(ui))
            if multibyte:
                res.count('lines_with_multibyte')
            why = wellformed(ui, nchars)
            sig = None
            if why:
                sig = 'ui:malformed:%s' % ('multibyte' if multibyte else 'ascii')
            elif spans is not None:
                have = {(t[0], t[1]): t[2] for t in ui}
                for (s_, e_, kind) in spans:
                    got = have.get((s_, e_))
                    if got != kind:
                        # a variable definition covers the name and everything left of '=' is re-typed; operators inside it are not demanded
                        why = 'expected a %s token for %r at [%d, %d), tokens are %r' % (kind, line[s_:e_], s_, e_, ui)
                        sig = 'ui:span:%s:%s' % (kind, 'multibyte' if multibyte else 'ascii')
                        break
                res.count('spans_checked', len(spans))
            if why is None:
                res.count('ok')
                if res.cases % 499 == 0:
                    res.sample({'lang': lang, 'line': line, 'tokens': ui})
                continue
            res.violation(sig + (':very-long' if len(line) > 65000 else '') + (':many-tokens' if cls == 'structured-many-tokens' else ''), '%r (%s): %s' % (line if len(line) < 400 else line[:150] + ' ... ' + line[-150:], lang, why[:600]),
                          {'config': cfg, 'lang': lang, 'text': line, 'tokens': ui, 'ops': [{'op': 'opts', 'ui': True}] + gh.config_ops(cfg) + [{'op': 'execute', 'lang': lang, 'text': line}]})

"""C07 - numbers print correctly rounded, grouped and signed. DESIGN.md 3.C07."""

import math

from . import lex, mon
from .numfmt import SEP_CONFIGS, canon_of_float, check_print, render_literal

SPEC = {
    'rule': ('values fed through atoms [NUMBER:x] / [PERCENT:x], money literals (x code) and unit literals, x written as a round-trip '
             'decimal of a chosen double; families: rounding ties k+0.5*10^-d +-{0,1,2 ulp}, carries (0.995, 999.995, 9999.5), '
             'values below one unit of the last digit, powers of ten +-1 ulp, 1e15..1e21, integers, log-uniform random, and their '
             'negatives; x digits 0..9 x zero-fraction removal x rounding on/off x 4 separator pairs x all currencies x unit formats. '
             'Oracle: exact decimal arithmetic (decimal.Decimal). non-trivial = every print; distinct = distinct (configuration, kind, x)'),
    'min_nontrivial': 3000,
    'budget_s': {'quick': 40, 'thorough': 420},
    'assumptions': ['at an exact tie both half-even and half-up neighbours are accepted', 'with rounding off the statement fixes no digit count: '
                    'the digits must read back to exactly x with at most 17 significant digits',
                    'decimal digits 0..9 (10 and above belong to C01)'],
}


def ulps(x, n):
    for _ in range(abs(n)):
        x = math.nextafter(x, math.inf if n > 0 else -math.inf)
    return x


def gen_value(rng, d):
    """-> (family, x)"""
    r = rng.random()
    if r < 0.22:
        k = rng.randint(0, 2000) if rng.random() < 0.7 else rng.randint(0, 10**rng.randint(3, 9))
        x = (k * 10 + 5) / 10 ** (d + 1)
        x = ulps(x, rng.choice([-2, -1, 0, 0, 1, 2]))
        fam = 'tie'
    elif r < 0.36:
        m = rng.randint(0, 9)
        x = 10 ** m - 0.5 * 10 ** (-d)
        x = ulps(x, rng.choice([-2, -1, 0, 0, 1, 2]))
        fam = 'carry'
    elif r < 0.46:
        x = rng.choice([4, 5, 6, 49, 50, 51, 1, 9, 99]) * 10 ** (-(d + rng.randint(1, 3)))
        fam = 'below-unit'
    elif r < 0.56:
        x = ulps(10.0 ** rng.randint(-9, 21), rng.choice([-1, 0, 1]))
        fam = 'pow10'
    elif r < 0.64:
        x = float(rng.randint(10**15, 10**21))
        fam = 'big'
    elif r < 0.76:
        x = float(rng.choice([0, 1, 7, 10, 99, 100, 999, 1000, 1234, 999999, 1000000, 123456789, 2**31, 2**53]))
        if rng.random() < 0.3:
            x += rng.choice([0.5, 0.25, 0.1, 0.05, 0.001])
        fam = 'int'
    else:
        x = 10 ** rng.uniform(-9, 18)
        if rng.random() < 0.5:
            x = round(x, rng.randint(0, 6))
        fam = 'random'
    if rng.random() < 0.3:
        x = -x
    return fam, x


def expect_money(cur, body_check, out):
    """strip symbol/placement -> formatted number or None"""
    sym = cur['symbol']
    left, space = cur['symbolOnLeft'], cur['spaceBetweenAmountAndSymbol']
    if left:
        pre = sym + (' ' if space else '')
        if not out.startswith(pre):
            return None
        return out[len(pre):]
    post = (' ' if space else '') + sym
    if not out.endswith(post):
        return None
    return out[:len(out) - len(post)]


DERIVED = [
    # lines of other features whose result is an ordinary number / percentage / amount of money / unit quantity: whatever the value
    # is, it must be printed by the same rule (the value is read from the result, the print is judged against it)
    ('number', '{hex} to decimal'), ('number', '{a} to decimal'), ('number', '{a} * {b}'), ('number', '{a} / {b}'), ('number', '{a} - {b}'),
    ('number', 'zq = {hex} to decimal\nzq / 1000'), ('number', 'zq = {a}\nzq * {b}'), ('number', '{p}% of {a}'), ('number', '{a} + {p}%'),
    ('number', '{a} km / {b} m'), ('number', '0b101101 to decimal'), ('number', '{a} to decimal * 3'),
    ('percent', '{a} is what % of {b}'), ('percent', '{p}% + {p}%'),
    ('money', '{a} usd * {b}'), ('money', '{a} usd to eur'), ('money', '${a} + {b} eur'), ('money', '{p}% of {a} jpy'), ('money', '{a} try / 7'),
    ('money', '{a} uah + {b} uah'), ('money', '{a} xof * 3'), ('money', '{a} kwd / 3'),
    ('unit', '{a} km to m'), ('unit', '{a} mb to kb'), ('unit', '{a} kg + {b} g'), ('unit', '{a} mile to km'), ('unit', 'zq = {a} gb\nzq to mb'),
]


def judge_print(slot, kind, cfg, sep, curs, units_by_key):
    """-> None or a reason: the printed form of the value the slot itself carries"""
    x = mon.fval(slot)
    out = slot['out']
    v = slot['v']
    if kind == 'number':
        if v.get('t') != 'Decimal':
            return 'the result is a %s number, expected an ordinary decimal number' % v.get('t')
        return check_print(x, out, sep, cfg['digits'], cfg['rm'], cfg['round'])
    if kind == 'percent':
        if not out.startswith('%'):
            return 'no % prefix'
        return check_print(x, out[1:], sep, cfg['pdigits'], cfg['rm'], cfg['round'])
    if kind == 'money':
        info = curs[v['code'].lower()]
        body = expect_money(info, None, out)
        if body is None:
            return 'symbol %r / placement (left=%s, space=%s) not respected' % (info['symbol'], info['symbolOnLeft'], info['spaceBetweenAmountAndSymbol'])
        return check_print(x, body, sep, info['decimalDigits'], cfg['mrm'], cfg['mround'])
    info = units_by_key.get((v.get('group'), v.get('index')))
    if info is None:
        return 'unknown unit %r' % (v,)
    pre, post = info['format'].split('{value}')
    if not (out.startswith(pre) and out.endswith(post)):
        return 'unit format %r not respected' % info['format']
    body = out[len(pre):len(out) - len(post)]
    return check_print(x, body, sep, info['digits'] if info['digits'] is not None else 2, info['rm'] if info['rm'] is not None else True,
                       info['round'] if info['round'] is not None else True)


def run_derived(ctx, drv, cfg, sep, curs, units_by_key):
    rng, res = ctx.rng, ctx.res
    items, meta = [], []
    for _ in range(60):
        kind, tpl = rng.choice(DERIVED)
        a = rng.choice(['1234567', '999.995', '1000', '0.5', '12345.678', '2.675', '1234567.891', '86400', '7', '1999.5'])
        b = rng.choice(['3', '7', '1000', '0.25', '12.5', '999'])
        text = (tpl.replace('{a}', render_literal(a, sep, rng.random() < 0.3)).replace('{b}', render_literal(b, sep))
                .replace('{p}', render_literal(rng.choice(['10', '12.5', '150', '0.5']), sep)).replace('{hex}', rng.choice(['0x12D687', '0xFF', '0o7777777', '0b1111101000'])))
        items.append(('en', text))
        meta.append((kind, tpl, text))
    for (kind, tpl, text), r in zip(meta, mon.run_lines(drv, cfg, items)):
        slot = mon.last_slot(r)
        res.cases += 1
        res.count('kind:derived-' + kind)
        res.distinct.add('derived', sep, cfg['digits'], cfg['rm'], cfg['round'], cfg['mrm'], cfg['mround'], text)
        if mon.kind(slot) != kind:
            res.count('derived_lines_of_another_kind_not_judged')       # what the line means is judged by its own property
            continue
        why = judge_print(slot, kind, cfg, sep, curs, units_by_key)
        if why is None:
            res.count('ok')
            continue
        res.violation('print:derived:%s:%s' % (kind, tpl.split('\n')[-1].replace(' ', '_')), '%r under separators %r, settings %s: prints %r for the value %r: %s'
                      % (text, sep, {k: cfg[k] for k in ('digits', 'pdigits', 'rm', 'round', 'mrm', 'mround')}, slot['out'], mon.fval(slot), why),
                      {'config': dict(cfg), 'lang': 'en', 'text': text, 'observed': mon.describe(slot),
                       'ops': mon.gh.config_ops(cfg) + [{'op': 'execute', 'lang': 'en', 'text': text}]})


def run_user_units(ctx, drv, cfg, sep):
    """Unit quantities of a user-defined family whose items set none, some or all of their own print options (decimal digits,
    zero-fraction removal, fraction rounding): an option that is not given falls back to 2 / on / on, each on its own."""
    rng, res = ctx.rng, ctx.res
    combos = [(None, None, None), (4, None, None), (None, False, None), (None, None, False), (0, True, None), (3, False, True), (1, None, True), (5, True, False)]
    words = ['ua', 'ub', 'uc', 'ud', 'ue', 'uf', 'ug', 'uh']
    via_json = rng.random() < 0.5
    if via_json:
        # the same family written into the configuration text (keys decimal_digits / use_fract_rounding / remove_fract_if_zero of an item)
        import os
        from . import core, lex
        items_ = []
        for i, (w, (dg, rm, rd)) in enumerate(zip(words, combos)):
            it = {'index': i + 1, 'format': '{value} %s' % w, 'parse': ['{NUMBER:value} {TEXT:type:%s}' % w], 'names': [w], 'upgrade_code': '{value}', 'downgrade_code': '{value}'}
            if dg is not None:
                it['decimal_digits'] = dg
            if rm is not None:
                it['remove_fract_if_zero'] = rm
            if rd is not None:
                it['use_fract_rounding'] = rd
            items_.append(it)
        ops = [{'op': 'new_calc_json', 'c': 9, 'seg': True, 'path': os.path.join(core.REPO, 'src/json/config.json'),
                'set': [['/types', lex.config()['types'] + [{'name': 'ufam', 'items': items_}]]]}] + mon.gh.config_ops(cfg, 9, seg=False)
        res.count('user_unit_families_written_into_the_configuration_text')
    else:
        ops = [{'op': 'new_calc', 'c': 9, 'seg': True}] + mon.gh.config_ops(cfg, 9, seg=False) + [{'op': 'add_type', 'c': 9, 'name': 'ufam'}]
    for i, (w, (dg, rm, rd)) in enumerate(zip(words, combos)):
        if via_json:
            break
        op = {'op': 'add_type_item', 'c': 9, 'name': 'ufam', 'index': i + 1, 'format': '{value} %s' % w, 'parse': ['{NUMBER:value} {TEXT:type:%s}' % w],
              'up': '{value}', 'down': '{value}', 'names': [w]}
        if dg is not None:
            op['digits'] = dg
        if rm is not None:
            op['rm'] = rm
        if rd is not None:
            op['round'] = rd
        ops.append(op)
    cases = []
    for _ in range(40):
        k = rng.randrange(len(words))
        dg, rm, rd = combos[k]
        fam, x = gen_value(rng, dg if dg is not None else 2)
        x = abs(x)
        cases.append((k, fam, x, '[NUMBER:%s] %s' % (canon_of_float(x), words[k])))
    n0 = len(ops)
    ops += [{'op': 'execute', 'c': 9, 'lang': 'en', 'text': t} for _, _, _, t in cases]
    rs = drv.run(ops)[n0:]
    for (k, fam, x, text), r in zip(cases, rs):
        slot = mon.slot0(r)
        dg, rm, rd = combos[k]
        res.cases += 1
        res.count('kind:user-unit')
        res.distinct.add('uunit', sep, k, x)
        if mon.kind(slot) != 'unit' or mon.fval(slot) != x:
            res.count('user_unit_lines_not_read_as_written')
            continue
        out = slot['out']
        post = ' ' + words[k]
        why = 'unit format not respected' if not out.endswith(post) else check_print(x, out[:-len(post)], sep, dg if dg is not None else 2, rm if rm is not None else True, rd if rd is not None else True)
        if why is None:
            res.count('ok')
            continue
        res.violation('print:user-unit:%s' % ('all-options' if None not in (dg, rm, rd) else 'no-options' if (dg, rm, rd) == (None, None, None) else 'some-options'),
                      '%s on a user unit registered with decimal_digits=%s remove_fract_if_zero=%s use_fract_rounding=%s under separators %r: prints %r: %s' % (text, dg, rm, rd, sep, out, why),
                      {'lang': 'en', 'text': text, 'ops': ops[:n0] + [{'op': 'execute', 'c': 9, 'lang': 'en', 'text': text}]})


def run_shard(ctx):
    rng = ctx.rng
    res = ctx.res
    drv = ctx.driver()
    curs = lex.currencies()
    codes = sorted(curs)
    units = [u for u in lex.unit_table()]
    units_by_key = {(u['group'], u['index']): u for u in units}
    while not ctx.out_of_time():
        sep = rng.choice(SEP_CONFIGS)
        exotic = rng.random() < 0.15
        if exotic:
            # separators are arbitrary strings for the printer (multi-byte, multi-character); money goes through a literal that
            # has to be *read* in the convention, so money is left out of these batches
            sep = rng.choice([(',', '\u00a0'), (',', "'"), ('.', '\u202f'), ('·', ' '), (',', '\u2019'), ('.', "' "), ('٫', '٬'), (',', '')])
        d = rng.randint(0, 9)
        pd = rng.randint(0, 9)
        if rng.random() < 0.15:
            d = rng.choice([10, 12, 15, 17, 19, 20, 21, 25, 40])         # decimal_digits is a u8: long fractions are a format setting too
            pd = rng.choice([10, 15, 19, 20, 22, 30])
        cfg = mon.cfg_with(dec=sep[0], thou=sep[1], digits=d, pdigits=pd, rm=rng.random() < 0.5, round=rng.random() < 0.8,
                           mrm=rng.random() < 0.5, mround=rng.random() < 0.8, thou_first=rng.random() < 0.5)      # both orders of the separator setters
        if not exotic and d < 10 and pd < 10:
            run_derived(ctx, drv, cfg, sep, curs, units_by_key)
            run_user_units(ctx, drv, cfg, sep)
        items = []
        meta = []
        for _ in range(150):
            kind = rng.choice(['number', 'number', 'percent', 'money', 'unit'])
            if exotic and kind == 'money':
                kind = 'number'
            if kind == 'number':
                fam, x = gen_value(rng, d)
                text = '[NUMBER:%s]' % canon_of_float(x)
                info = None
            elif kind == 'percent':
                fam, x = gen_value(rng, pd)
                text = '[PERCENT:%s]' % canon_of_float(x)
                info = None
            elif kind == 'money':
                code = rng.choice(codes)
                info = curs[code]
                fam, x = gen_value(rng, info['decimalDigits'])
                # the ';' of a money atom is eaten by the alias table, so money goes through a literal
                text = '%s %s' % (render_literal(canon_of_float(x), sep, rng.random() < 0.3), code)
            else:
                info = rng.choice(units)
                ud = info['digits'] if info['digits'] is not None else 2
                fam, x = gen_value(rng, ud)
                text = '[NUMBER:%s] %s' % (canon_of_float(x), rng.choice(info['spellings']))
            items.append(('en', text))
            meta.append((kind, fam, x, info, text))
        rs = mon.run_lines(drv, cfg, items)
        for (kind, fam, x, info, text), r in zip(meta, rs):
            slot = mon.slot0(r)
            res.cases += 1
            res.count('kind:' + kind)
            res.count('family:' + fam)
            res.cover('decimal digits setting (number)', str(d))
            if exotic:
                res.count('exotic_separator_cases')
            if kind == 'money':
                res.cover('currency printed', info['code'] if 'code' in info else str(info.get('symbol')), len(codes))
            res.distinct.add(sep, d, pd, cfg['rm'], cfg['round'], cfg['mrm'], cfg['mround'], kind, x, info and info.get('code', info.get('group')))
            k = mon.kind(slot)
            want_kind = {'number': 'number', 'percent': 'percent', 'money': 'money', 'unit': 'unit'}[kind]
            problem = None
            rounding = cfg['round']
            if k != want_kind:
                problem = 'expected a %s, got %s' % (want_kind, mon.describe(slot))
            else:
                got = mon.fval(slot)
                if got != x:
                    problem = 'atom value read as %r instead of %r' % (got, x)
                else:
                    out = slot['out']
                    if kind == 'number':
                        why = check_print(x, out, sep, d, cfg['rm'], cfg['round'])
                    elif kind == 'percent':
                        if not out.startswith('%'):
                            why = 'no %% prefix'
                        else:
                            why = check_print(x, out[1:], sep, pd, cfg['rm'], cfg['round'])
                    elif kind == 'money':
                        rounding = cfg['mround']
                        body = expect_money(info, None, out)
                        if body is None:
                            why = 'symbol %r / placement (left=%s, space=%s) not respected' % (info['symbol'], info['symbolOnLeft'], info['spaceBetweenAmountAndSymbol'])
                        else:
                            why = check_print(x, body, sep, info['decimalDigits'], cfg['mrm'], cfg['mround'])
                    else:
                        rounding = info['round'] if info['round'] is not None else True
                        fmt = info['format']
                        pre, post = fmt.split('{value}')
                        if not (out.startswith(pre) and out.endswith(post)):
                            why = 'unit format %r not respected' % fmt
                        else:
                            body = out[len(pre):len(out) - len(post)]
                            why = check_print(x, body, sep, info['digits'] if info['digits'] is not None else 2,
                                              info['rm'] if info['rm'] is not None else True, rounding)
                    if why:
                        problem = 'prints %r: %s' % (out, why)
            if problem is None:
                res.count('ok')
                if res.cases % 499 == 0:
                    res.sample({'config': cfg, 'text': text, 'value': repr(x), 'printed': slot['out']})
                continue
            sig = 'print:%s:%s:%s' % (kind, 'round' if rounding else 'noround', fam)
            res.violation(sig, '%s under separators %r, digits %s: %s' % (text, sep, d, problem),
                          {'config': cfg, 'lang': 'en', 'text': text, 'value': repr(x), 'observed': mon.describe(slot),
                           'ops': mon.gh.config_ops(cfg) + [{'op': 'execute', 'lang': 'en', 'text': text}]})

"""C04 - evaluation never changes the calculator; sessions isolate and persist. DESIGN.md 3.C04."""

import re

from . import gen_hostile as gh
from . import mon
from .numfmt import SEP_CONFIGS

SPEC = {
    'rule': ('(a) history independence: a long-lived calculator receives a stream of texts (hostile soup, mutated test lines, phrases of every '
             'kind, texts that bind variables, each followed by a text that reads the same names); every result is compared slot by slot with '
             'the result of the same text on a second calculator that sees the batch in a different order, and for a sample on a calculator '
             'built for that text alone; the configuration fingerprint (hook H3) is read around every batch and a change triggers a probe '
             'battery against a fresh calculator. (b) sessions: random sequences of set_text / execute_session with texts of 1-8 lines (line '
             'counts going up and down) on re-used sessions, two sessions interleaved on one calculator; the slots of text k must be the last '
             'len(lines) slots of one execute of the concatenation t1..tk, and the lines started (hook log) must be exactly the lines of '
             'the text in order. non-trivial = a compared text with at least one non-empty slot / a session step; distinct = distinct '
             '(configuration, text or history)'),
    'min_nontrivial': 1500,
    'budget_s': {'quick': 45, 'thorough': 420},
    'assumptions': ['the reference for history independence is the implementation itself without that history (the property is this relation)'],
}

PHRASES = ['10 usd to try', '$25/hour * 14 hours of work', '3 hours 20 minutes + 50 minutes', '5 march 2020 + 3 weeks', '10:30 EST to CET',
           '15% of 200', '200 + 10%', '5 km to mile', '1 gb to mb', '0xFF to binary', '1664582400 to date', '12/02/2020 as unix',
           'today + 1 week', '20 is what % of 80', '2 days 3 hours as minutes', '€100 + $20', '1k usd / 4', '11:30 pm + 2 hours', 'june 15, 2021 to july 4, 2021']
NAMES = ['zq', 'wv', 'mk total', 'çay', 'rent xx', 'tax-rate']


LATE_RULES = [
    {'lang': 'en', 'patterns': ['dozen'], 'spec': {'name': 'late1', 'kind': 'const', 'value': 12}},
    {'lang': 'en', 'patterns': ['zork {NUMBER:a} {NUMBER:b}', '{NUMBER:a} zork'], 'spec': {'name': 'late2', 'kind': 'encode', 'weights': {'a': 3}}},
    {'lang': 'tr', 'patterns': ['{NUMBER:n} kere'], 'spec': {'name': 'late3', 'kind': 'encode', 'weights': {'n': 7}}},
    # a rule that declines some of its matches (unknown coin) and accepts others: a declined match must leave no trace in the calculator
    {'lang': 'en', 'patterns': ['mint {TEXT:coin}', '{NUMBER:n} {TEXT:coin} minted'], 'spec': {'name': 'late4', 'kind': 'encode', 'weights': {'coin': 100},
                                                                                      'text_codes': {'btc': 1, 'eth': 2}, 'decline_unknown_text': True}},
]
# the long-lived calculator evaluates the probes in this order, the never-used one in the reverse order
LATE_PROBES = [('en', 'dozen'), ('en', 'dozen * 2'), ('en', '3 dozen'), ('en', 'zork 3 4'), ('en', '5 zork'), ('tr', '5 kere'), ('en', '1 + 1'), ('tr', 'dozen'),
               ('en', 'mint doge'), ('en', 'mint btc'), ('en', '3 doge minted'), ('en', '3 eth minted'), ('en', 'mint eth + mint doge')]


def binding_text(rng):
    """-> [texts]: a text that binds names, then texts that read them (which must NOT see the bindings)"""
    n = rng.choice(NAMES)
    m = rng.choice(NAMES)
    val = rng.choice(['5', '12,5', '$20', '3 hours', '15%', '5 km', '10:30'])
    t1 = '%s = %s\n%s = %s + 1\n%s' % (n, val, m, n, m)
    return [t1, n, '%s + 1' % m, '%s = %s' % (m, n)]


FAMILIES = ['%s km to mm', '%s gb to kb', '%s mile to km', '%s kg to lb', '%s usd to eur', '%s try to usd', '%s%% of 200', '200 + %s%%',
            '%s * 3', '1000 / %s', '%s hours as minutes', '%s to hex', '%s m + 50 cm', '5 km + %s m', '%s usd + 10 eur', '%s is what %% of 80',
            '$%s * 2', '%s days', '%s mb to byte', '10 - %s']
FAMILY_BASES = ['0', '1', '1.004', '2.5', '2.503', '12.0049', '1000', '12345.678', '0.001', '999.995']
FAMILY_SEEN = set()
FAMILY_DELTAS = ['0', '0', '0.001', '-0.001', '0.003', '-0.003', '0.004', '0.0004', '1', '-1', '0.5']


def family_texts(rng, sep):
    """Near-duplicates: one phrase shape evaluated for values that differ in the third or fourth
    decimal (or are 0) - what a memo table with a coarse key, or a factor learnt from the first
    amount, would confuse. Each value is its own text, so the two calculators see them in
    different orders."""
    from decimal import Decimal
    from .numfmt import render_literal
    shape = rng.choice(FAMILIES)
    base = Decimal(rng.choice(FAMILY_BASES))
    vals = []
    for _ in range(rng.randint(3, 5)):
        v = base + Decimal(rng.choice(FAMILY_DELTAS))
        if v < 0:
            v = -v
        vals.append(v)
    if rng.random() < 0.5:
        vals.insert(rng.randrange(len(vals)), Decimal(0))
    out = []
    for v in vals:
        canon = format(v.normalize(), 'f') if v != 0 else '0'
        if ('to hex' in shape or 'days' in shape) and '.' in canon:
            canon = canon.split('.')[0]
        out.append(shape % render_literal(canon, sep))
    FAMILY_SEEN.update(out)
    return out


POISON = ['9' * 320 + ' km to m', '1' + '0' * 400 + ' kg to lb', '9' * 310 + ' gb to kb', '9' * 330 + ' usd to eur', '9' * 320 + '% of 5', '9' * 320 + ' hours as minutes',
          '0 km to m', '5 km / 0 m', '1' + '0' * 400 + ' * 2', '9' * 320 + ' to hex']


def stream_text(rng, sep=(',', '.')):
    r = rng.random()
    if r < 0.03:
        # an evaluation that fails or overflows inside a conversion, followed by ordinary conversions of the same kinds
        return [rng.choice(POISON), '1 km to m', '3 km + 500 m', '2 gb to mb', '10 usd to eur']
    if r < 0.12:
        return family_texts(rng, sep)
    r = rng.random()
    if r < 0.35:
        return [gh.hostile_text(rng, with_sentinels=False)[0][:1500]]
    if r < 0.55:
        return [rng.choice(gh.corpus())]
    if r < 0.75:
        return [rng.choice(PHRASES)]
    if r < 0.9:
        return binding_text(rng)
    return ['\n'.join(rng.choice(PHRASES + gh.corpus()) for _ in range(rng.randint(2, 6)))]


def strip(r):
    """what is compared between two executions of the same text"""
    if 'lines' in r:
        return ('lines', r.get('status'), tuple(None if s_ is None else (s_.get('out'), s_.get('err'), repr(sorted((s_.get('v') or {}).items()))) for s_ in r['lines']))
    if 'panic' in r:
        return ('panic', r['panic'].get('msg'), r['panic'].get('fn'))
    return ('other', repr({k: r[k] for k in r if k in ('hang', 'crash', 'driver_error')}))


MONEY_NAMES = {}        # names holding money in the history being generated -> currency


_NAME_ALT = '|'.join(re.escape(n) for n in sorted(NAMES, key=len, reverse=True))
_RE_SET = re.compile(r'^(%s) = (\d+)$' % _NAME_ALT)
_RE_DERIVE = re.compile(r'^(%s) = (%s) \+ (\d+)$' % (_NAME_ALT, _NAME_ALT))
# (right sides that cannot be calculated under any configured language: '3 hours * 2 hours' is 6 in tr, where 'hours' is no duration word)
_RE_FAIL = re.compile(r'^(%s) = (3 gb \* 2 km|5 km \+ 3 kg|10:30 \* 2)$' % _NAME_ALT)
_RE_USE = re.compile(r'^(%s) \* 2 \+ (\d+)$' % _NAME_ALT)


def model_lines(env, text):
    """A tiny model of the three numeric line shapes program_line produces; env: name -> value known to the model.
    -> [expected number or None] per line of the text (None: not modelled)"""
    out = []
    for line in re.split(r'\r\n|\n', text):
        m = _RE_SET.match(line)
        if m:
            env[m.group(1)] = float(m.group(2))
            out.append(env[m.group(1)])
            continue
        m = _RE_DERIVE.match(line)
        if m:
            if m.group(2) in env:
                env[m.group(1)] = env[m.group(2)] + float(m.group(3))
                out.append(env[m.group(1)])
            else:
                env.pop(m.group(1), None)
                out.append(None)
            continue
        m = _RE_FAIL.match(line)
        if m:
            out.append('fails')           # a re-definition that parses but cannot be calculated: the old binding stays
            continue
        m = _RE_USE.match(line)
        if m and m.group(1) in env:
            out.append(env[m.group(1)] * 2 + float(m.group(2)))
            continue
        out.append(None)
    return out


def program_line(rng, bound, phrases=True):
    r = rng.random()
    if not phrases and r >= 0.92:
        r = 0.5
    if bound and r < 0.04:
        return '%s = %s' % (rng.choice(sorted(bound)), rng.choice(['3 gb * 2 km', '5 km + 3 kg', '10:30 * 2'])), None
    if r < 0.45 or not bound:
        n = rng.choice(NAMES)
        if bound and rng.random() < 0.5:
            return '%s = %s + %d' % (n, rng.choice(sorted(bound)), rng.randint(1, 99)), n
        return '%s = %d' % (n, rng.randint(1, 9999)), n
    if r < 0.78:
        return '%s * 2 + %d' % (rng.choice(sorted(bound)), rng.randint(0, 9)), None
    if r < 0.85:
        # amounts of money held by names (also in currencies without an exchange rate) combined with amounts of the same currency
        if MONEY_NAMES and rng.random() < 0.65:
            n = rng.choice(sorted(MONEY_NAMES))
            return '%s %s %d %s' % (n, rng.choice('+-/'), rng.randint(1, 50), MONEY_NAMES[n]), None
        cur = rng.choice(['cad', 'usd', 'uah', 'eur', 'pkr'])
        n = rng.choice(['mny', 'bdg xx', 'kasa'])
        MONEY_NAMES[n] = cur
        return '%s = %d %s' % (n, rng.randint(1, 500), cur), None
    if r < 0.92:
        return '', None
    return rng.choice(PHRASES), None


def run_shard(ctx):
    rng = ctx.rng
    res = ctx.res
    drv = ctx.driver(rw=True)
    sep = SEP_CONFIGS[ctx.shard % len(SEP_CONFIGS)] if ctx.shard % 3 == 0 else SEP_CONFIGS[0]
    cfg = mon.cfg_with(dec=sep[0], thou=sep[1], tz=rng.choice(['UTC', 'UTC', 'EST', 'IST']))
    lang_pool = ['en', 'en', 'en', 'tr']
    first = True
    while not ctx.out_of_time():
        if rng.random() < 0.55:
            # ---------------- (a) history independence
            texts = []
            while len(texts) < 120:
                for t in stream_text(rng, sep):
                    texts.append((rng.choice(lang_pool), t))
            order = list(range(len(texts)))
            rng.shuffle(order)
            sample = rng.sample(range(len(texts)), 4)
            ops = []
            if first:
                ops += [{'op': 'new_calc', 'c': 0, 'seg': True}] + gh.config_ops(cfg, 0, seg=False)
                first = False
            else:
                ops += gh.config_ops(cfg, 0, seg=True)   # the long-lived calculator keeps its history (same settings re-applied)
            ops.append({'op': 'fingerprint', 'c': 0})
            i_fp0 = len(ops) - 1
            a_idx = {}
            for k, (lang, t) in enumerate(texts):
                ops.append({'op': 'execute', 'c': 0, 'lang': lang, 'text': t})
                a_idx[k] = len(ops) - 1
            ops.append({'op': 'fingerprint', 'c': 0})
            i_fp1 = len(ops) - 1
            ops += [{'op': 'new_calc', 'c': 1}] + gh.config_ops(cfg, 1, seg=False)
            ops.append({'op': 'fingerprint', 'c': 1})
            i_fpf = len(ops) - 1
            b_idx = {}
            for k in order:
                lang, t = texts[k]
                ops.append({'op': 'execute', 'c': 1, 'lang': lang, 'text': t})
                b_idx[k] = len(ops) - 1
            c_idx = {}
            for k in sample:
                lang, t = texts[k]
                ops += [{'op': 'new_calc', 'c': 2}] + gh.config_ops(cfg, 2, seg=False)
                ops.append({'op': 'execute', 'c': 2, 'lang': lang, 'text': t})
                c_idx[k] = len(ops) - 1
            # a configuration change made *after* evaluations has the same effect as on a calculator that never evaluated anything:
            # custom rules (one with a one-word pattern) are registered on the long-lived calculator and on a new one
            late = []
            for spec in LATE_RULES:
                ops.append({'op': 'delete_rule', 'c': 0, 'lang': spec['lang'], 'name': spec['spec']['name']})
                ops.append(dict(spec, op='add_rule', c=0))
            ops += [{'op': 'new_calc', 'c': 2}] + gh.config_ops(cfg, 2, seg=False) + [dict(spec, op='add_rule', c=2) for spec in LATE_RULES]
            pos0, pos2 = {}, {}
            for k, (lang, t) in enumerate(LATE_PROBES):
                ops.append({'op': 'execute', 'c': 0, 'lang': lang, 'text': t})
                pos0[k] = len(ops) - 1
            for k in reversed(range(len(LATE_PROBES))):
                lang, t = LATE_PROBES[k]
                ops.append({'op': 'execute', 'c': 2, 'lang': lang, 'text': t})
                pos2[k] = len(ops) - 1
            for k, (lang, t) in enumerate(LATE_PROBES):
                late.append((lang, t, pos0[k], pos2[k]))
            for spec in LATE_RULES:
                ops.append({'op': 'delete_rule', 'c': 0, 'lang': spec['lang'], 'name': spec['spec']['name']})     # the long-lived calculator goes on without them
            rs = drv.run(ops)
            for lang, t, i0, i2 in late:
                res.cases += 1
                res.count('late_registration_probes_compared')
                if strip(rs[i0]) != strip(rs[i2]):
                    res.violation('history:late-registration-differs', 'custom rules registered after a stream of evaluations: %r (%s) gives %s, on a calculator that had not evaluated anything before the registration %s'
                                  % (t, lang, str(strip(rs[i0]))[:200], str(strip(rs[i2]))[:200]),
                                  {'config': cfg, 'lang': lang, 'text': t,
                                   'ops': gh.config_ops(cfg) + [{'op': 'execute', 'lang': 'en', 'text': '1 + 1'}] + [dict(spec, op='add_rule') for spec in LATE_RULES] + [{'op': 'execute', 'lang': lang, 'text': t}]})
                else:
                    res.count('ok')
            for k, (lang, t) in enumerate(texts):
                ra, rb = rs[a_idx[k]], rs[b_idx[k]]
                res.cases += 1
                res.count('history_texts_compared')
                if any(s_ is not None for s_ in ra.get('lines', [])):
                    res.distinct.add(cfg['dec'], cfg['tz'], lang, t)
                if t in FAMILY_SEEN:
                    res.count('history_near_duplicate_family_texts')
                sa, sb = strip(ra), strip(rb)
                bad = None
                if sa != sb:
                    bad = ('history:order-dependent', 'long-lived calculator', sa, 'calculator that saw the batch in another order', sb)
                if k in c_idx:
                    res.count('history_texts_compared_with_fresh_calculator')
                    sc = strip(rs[c_idx[k]])
                    if sa != sc:
                        bad = ('history:differs-from-fresh', 'long-lived calculator', sa, 'fresh calculator', sc)
                if bad:
                    res.violation(bad[0], 'text %r (%s): %s gives %s, %s gives %s' % (t[:200], lang, bad[1], str(bad[2])[:300], bad[3], str(bad[4])[:300]),
                                  {'config': cfg, 'lang': lang, 'text': t, 'history_before': [x[1] for x in texts[:k]][-30:],
                                   'ops': gh.config_ops(cfg) + [{'op': 'execute', 'lang': l_, 'text': x} for l_, x in texts[:k + 1]]})
                else:
                    res.count('ok')
            fp0, fp1, fpf = rs[i_fp0].get('h'), rs[i_fp1].get('h'), rs[i_fpf].get('h')
            res.count('h3_fingerprints_compared', 2)
            if fp0 != fp1 or fp1 != fpf:
                res.count('h3_fingerprint_changes_lead')
                # lead: full probe battery on the suspected calculator and on a fresh one
                battery = [('en', t) for t in gh.corpus()] + [('tr', t) for t in gh.corpus()[:40]]
                ops2 = gh.config_ops(cfg, 0, seg=True) + [{'op': 'execute', 'c': 0, 'lang': l_, 'text': t} for l_, t in battery]
                ops2 += [{'op': 'new_calc', 'c': 2}] + gh.config_ops(cfg, 2, seg=False) + [{'op': 'execute', 'c': 2, 'lang': l_, 'text': t} for l_, t in battery]
                ops2 += [{'op': 'fingerprint', 'c': 0, 'full': True}, {'op': 'fingerprint', 'c': 2, 'full': True}]
                r2 = drv.run(ops2)
                n = len(battery)
                a0 = 6
                b0 = 6 + n + 1 + 6
                for j, (l_, t) in enumerate(battery):
                    if strip(r2[a0 + j]) != strip(r2[b0 + j]):
                        fa, fb = r2[-2].get('fp', ''), r2[-1].get('fp', '')
                        diff = [x for x in fa.split('\n') if x not in set(fb.split('\n'))][:6]
                        res.violation('history:calculator-state-changed', 'after a stream of evaluations the calculator answers %r with %s, a fresh one with %s; configuration state that differs: %s'
                                      % (t, str(strip(r2[a0 + j]))[:200], str(strip(r2[b0 + j]))[:200], diff),
                                      {'config': cfg, 'text': t, 'fingerprint_diff': diff, 'ops': gh.config_ops(cfg) + [{'op': 'execute', 'lang': l_, 'text': t}]})
                        break
        else:
            # ---------------- (b) sessions
            ops = [{'op': 'new_calc', 'c': 3, 'seg': True}] + gh.config_ops(cfg, 3, seg=False)
            # one history in four uses the sessions with two identically configured calculator objects in turn (a front end that
            # rebuilds its calculator and keeps the session): the result is determined by configuration, text and date only
            MONEY_NAMES.clear()
            two_calcs = rng.random() < 0.25
            if two_calcs:
                ops += [{'op': 'new_calc', 'c': 4}] + gh.config_ops(cfg, 4, seg=False)
                res.count('session_histories_over_two_identical_calculators')
            sessions = {1: {'texts': [], 'bound': set(), 'lang': rng.choice(['en', 'en', 'tr'])}, 2: {'texts': [], 'bound': set(), 'lang': 'en'}}
            # a history that switches the language of a session uses word-independent lines only (bindings and arithmetic are the
            # same in every language, C19), so that one execute of the concatenation under the first language stays the reference
            switching = rng.random() < 0.35
            for st in sessions.values():
                st['ref_lang'] = st['lang']
                st['last'] = None
                st['env'] = {}
            for sid, st in sessions.items():
                ops.append({'op': 'session_new', 's': sid})
                ops.append({'op': 'session_set_language', 's': sid, 'lang': st['lang']})
            steps = []
            for _ in range(rng.randint(4, 14)):
                sid = rng.choice([1, 1, 2])
                st = sessions[sid]
                nl = rng.choice([1, 1, 2, 3, 5, 8, 1, 4])
                lines = []
                for _k in range(nl):
                    ln, b = program_line(rng, st['bound'], phrases=not switching)
                    lines.append(ln)
                    if b:
                        st['bound'].add(b)
                if switching and rng.random() < 0.4:
                    st['lang'] = rng.choice([l_ for l_ in ('en', 'tr') if l_ != st['lang']] + [st['lang']])
                    ops.append({'op': 'session_set_language', 's': sid, 'lang': st['lang']})
                    res.count('session_language_switches')
                if rng.random() < 0.1:
                    # a text that is set but never evaluated (replaced by the next set_text): it must leave no trace
                    ops.append({'op': 'session_set_text', 's': sid, 'text': 'zq = 777\nwv = 778\n%s = 779' % rng.choice(NAMES)})
                    res.count('session_texts_set_but_not_evaluated')
                if rng.random() < 0.15 and sessions[3 - sid]['bound']:
                    # read a name bound only in the *other* session
                    other = sorted(sessions[3 - sid]['bound'] - st['bound'])
                    if other:
                        lines.append('%s + 1' % other[0])
                text = ('\r\n' if rng.random() < 0.2 else '\n').join(lines)
                if st['last'] is not None and rng.random() < 0.18:
                    text = st['last']             # the byte-identical text set again (an editor refresh): evaluated again, from its first line
                    res.count('session_same_text_set_again')
                st['last'] = text
                st['texts'].append(text)
                ops.append({'op': 'session_set_text', 's': sid, 'text': text})
                ops.append({'op': 'execute_session', 'c': (rng.choice([3, 4]) if two_calcs else 3), 's': sid})
                i_sess = len(ops) - 1
                concat = '\n'.join(st['texts'])
                ops.append({'op': 'execute', 'c': 3, 'lang': st['ref_lang'], 'text': concat})
                steps.append((sid, text, i_sess, len(ops) - 1, len(st['texts']), concat, model_lines(st['env'], text)))
            rs = drv.run(ops)
            for sid, text, i_sess, i_ref, kth, concat, expect in steps:
                r, ref = rs[i_sess], rs[i_ref]
                res.cases += 1
                res.count('session_steps')
                res.distinct.add('session', sid, concat)
                parts = re.split(r'\r\n|\n', text)
                n = len(parts)
                problem = None
                if 'lines' not in r or r.get('status') is not True:
                    problem = ('session:no-result', 'execute_session after the %d. set_text returned %s' % (kth, str({k: r[k] for k in r if k in ('status', 'panic', 'hang', 'crash')})[:200]))
                elif len(r['lines']) != n:
                    problem = ('session:slot-count', '%d slots for a text of %d lines (the %d. text set on this session)' % (len(r['lines']), n, kth))
                elif 'lines' in ref and len(ref['lines']) >= n:
                    want = strip({'lines': ref['lines'][-n:], 'status': True})
                    got = strip(r)
                    if want != got:
                        problem = ('session:values', 'slots %s differ from the last %d slots of the concatenated program %s' % (str(got[2])[:300], n, str(want[2])[:300]))
                if problem is None:
                    # the slots against the model of the numeric lines (a re-used session keeps its variables: the latest binding counts)
                    for k_, want_ in enumerate(expect):
                        if want_ is None:
                            continue
                        slot_ = r['lines'][k_]
                        res.count('session_lines_judged_against_the_model')
                        if want_ == 'fails':
                            if slot_ is not None and 'err' not in slot_:
                                res.count('session_redefinitions_expected_to_fail_that_evaluated')
                            continue
                        if not (slot_ is not None and slot_.get('v', {}).get('k') == 'number' and mon.fval(slot_) == want_):
                            problem = ('session:model-value', 'line %d %r of the %d. text should evaluate to %r (bindings made by earlier texts and lines of this session), got %s'
                                       % (k_, parts[k_], kth, want_, mon.describe(slot_)))
                            break
                if problem is None and 'ln' in r and r['ln'] != parts:
                    problem = ('session:lines-evaluated', 'lines started by the evaluation: %r, lines of the text: %r' % (r['ln'], parts))
                if problem is None:
                    res.count('ok')
                    if res.cases % 211 == 0:
                        res.sample({'session': sid, 'nth_text': kth, 'text': text, 'slots': [None if s_ is None else s_.get('out', s_.get('err')) for s_ in r['lines']]})
                    continue
                res.violation(problem[0], 'session %d, text %r: %s' % (sid, text, problem[1]),
                              {'config': cfg, 'text': text, 'ops': [o for o in ops[:i_sess + 1] if o.get('op') != 'execute']})

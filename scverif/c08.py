"""C08 - separators affect only reading and printing of numbers. DESIGN.md 3.C08."""

from . import gen_expr as ge
from . import c10, lex, mon
from .numfmt import SEP_CONFIGS, check_print, render_literal

SPEC = {
    'rule': ('structured lines with literal slots (arithmetic trees, money literals / conversions / sums, percentage phrases, unit '
             'conversions and unit sums - weighted up -, values travelling through variables, durations with grouped counts) rendered under '
             'two of the four separator conventions (literals with and without thousands grouping) and evaluated under the matching '
             'configuration: the two values must be identical, and each printed number must be the C07 rendering of its value in its own '
             'convention. non-trivial = a compared pair with a value; distinct = distinct (structured line, pair of conventions)'),
    'min_nontrivial': 2000,
    'budget_s': {'quick': 35, 'thorough': 360},
    'assumptions': ['the value a line denotes is judged by the property-specific monitors; here only independence from the convention is judged'],
}

NUMS = ['1', '2', '5', '10', '12.5', '99.99', '100', '250', '1000', '1234.56', '0.5', '1000000', '19.9', '3', '12345.678', '0.001', '2500', '7.25', '1234567.891',
        '1234567890123456789012', '123456789012345678901.5', '98765432109876543210987654321']       # the last three: 21-29 integer digits
PCTS = ['5', '12.5', '150', '0.5', '1234.5', '2000', '1250000', '1000.25', '99999.9']
INTS = ['1', '2', '12', '30', '365', '1000', '2500', '10000', '1234567', '547500', '36500000']
UNITS = [('km', 'mile'), ('mile', 'km'), ('kg', 'lb'), ('stone', 'kg'), ('gb', 'mb'), ('mb', 'byte'), ('inch', 'cm'), ('yard', 'm'), ('tonne', 'kg'), ('oz', 'g'),
         ('kb', 'bit'), ('ft', 'mm'), ('cm', 'km'), ('mg', 'kg'), ('furlong', 'mile'), ('lb', 'oz'), ('tb', 'gb'), ('m', 'ft')]


def N(c):
    return ('n', c)


def gen_struct(rng):
    """-> (class, [items]) items: str (verbatim, joined with single blanks) | ('n', canonical) | '\n'"""
    codes = lex.rated_codes()
    k = rng.random()
    x, y = rng.choice(NUMS), rng.choice(NUMS)
    if k < 0.06:
        # a single literal: it must denote the intended number in every convention (value compared with the canonical digits)
        form = rng.randrange(3)
        big = rng.choice(NUMS + ['1234.5', '1250000', '2000', '999999.999', '1000.001', '123456789.5'])
        r2 = rng.random()
        if r2 < 0.25:
            # a sign written directly in front of the literal, also in front of a zero whole part
            small = rng.choice(['0.5', '0.25', '0.001', '0.75', '1.5', '12', '1234.5', '0.05'])
            if form == 0:
                return 'literal:number', [('n', small, '-')]
            if form == 1:
                return 'literal:percent', [('p', small, '-')]
            return 'literal:money', [('n', small, '-'), rng.choice(codes)]
        if r2 < 0.4:
            # a magnitude suffix behind a literal with thousands groups
            return 'literal:number', [('n', rng.choice(['1500', '2000', '1200', '25000', '1500.5', '1234567']), '', rng.choice('kM'))]
        if form == 0:
            return 'literal:number', [N(big)]
        if form == 1:
            return 'literal:percent', [('p', big)]
        return 'literal:money', [N(big), rng.choice(codes)]
    if k < 0.15:
        tree = ge.gen_tree(rng, rng.randint(1, 3), {'suffix': False, 'deep_paren': False, 'group_sign': False, 'detached': False, 'juxt': False})
        items = []
        for kind, t in ge.lex_tokens(tree, ('.', '')):
            if kind == 'num':
                sign = ''
                if t[0] in '+-':
                    sign, t = t[0], t[1:]
                items.append(('n', t, sign))
            else:
                items.append(t)
        return 'arithmetic', items
    if k < 0.27:
        a, b = rng.choice(codes), rng.choice(codes)
        form = rng.randrange(4)
        if rng.random() < 0.35:
            # the money literal in one of its other spellings: symbol before / behind / behind a blank, magnitude suffix with code or symbol
            sym = rng.choice(['usd', 'eur', 'try'])
            lit = ('m', x, rng.choice(['sym-pre', 'sym-post', 'sym-post-sp', 'k-code', 'k-sym', 'pre-k', 'M-code']), sym)
            return 'money', [[lit], [lit, 'to', b], [lit, '*', N('2')], [lit, '+', N(y), b]][form]
        if form == 0:
            return 'money', [N(x), a, 'to', b]
        if form == 1:
            return 'money', [N(x), a, '+', N(y), b]
        if form == 2:
            return 'money', [N(x), a, '*', N(rng.choice(['2', '0.5', '1.25']))]
        return 'money', [N(x), a]
    if k < 0.37:
        form = rng.randrange(4)
        if form == 0:
            return 'percent', [('p', rng.choice(PCTS)), 'of', N(x)]
        if form == 1:
            return 'percent', [N(x), rng.choice('+-'), ('p', rng.choice(PCTS))]
        if form == 2:
            return 'percent', [N(x), 'is', 'what', '%', 'of', N(y)]
        return 'percent', [N(x), 'is', ('p', rng.choice(PCTS[:3] + ['40', '1234.5', '2500'])), 'of', 'what']
    if k < 0.72:
        a, b = rng.choice(UNITS)
        form = rng.randrange(5)
        if form == 0:
            return 'unit-conversion', [N(x), a, 'to', b]
        if form == 1:
            return 'unit-sum', [N(x), a, rng.choice('+-'), N(y), b]
        if form == 2:
            return 'unit-via-variable', ['zq', '=', N(x), a, '\n', 'zq', 'to', b]
        if form == 3:
            return 'unit-via-variable', ['zq', '=', N(x), a, 'to', b, '\n', 'zq', '*', N(rng.choice(['2', '1.5']))]
        return 'unit-ratio', [N(x), a, '/', N(y), b]
    if k < 0.85:
        form = rng.randrange(3)
        if rng.random() < 0.25:
            # a name that contains a number (a fraction, a number with thousands groups)
            nm = [rng.choice(['vat', 'top', 'rate']), N(rng.choice(['7.5', '1000', '2.5', '12', '1234.5']))]
            return 'variable-with-a-number-in-its-name', nm + ['=', N(x), '\n', N(y), '*'] + nm
        if form == 0:
            return 'variable', ['zq', '=', N(x), '\n', 'zq', '*', N(y)]
        if form == 1:
            return 'variable', ['zq', '=', N(x), '\n', 'wv', '=', 'zq', '+', N(y), '\n', 'wv', '/', N(rng.choice(['3', '7', '0.25']))]
        return 'variable', ['zq', '=', N(x), rng.choice(codes), '\n', 'zq', 'to', rng.choice(codes)]
    if k < 0.93:
        return 'duration', [N(rng.choice(INTS)), rng.choice(['days', 'hours', 'minutes', 'weeks']), N(rng.choice(INTS)), rng.choice(['seconds', 'minutes'])]
    return 'base', [N(rng.choice(INTS)), 'to', rng.choice(['hex', 'octal', 'binary'])]


def render(items, sep, grouped, pct_suffix=True):
    lines, cur = [], []
    for it in items:
        if it == '\n':
            lines.append(' '.join(cur))
            cur = []
        elif isinstance(it, tuple):
            if it[0] == 'm':
                lit = render_literal(it[1], sep, grouped)
                symbol = {'usd': '$', 'eur': '€', 'try': '₺'}[it[3]]
                cur.append({'sym-pre': symbol + lit, 'sym-post': lit + symbol, 'sym-post-sp': lit + ' ' + symbol, 'k-code': lit + 'k ' + it[3],
                            'k-sym': lit + 'k ' + symbol, 'pre-k': symbol + lit + 'k', 'M-code': lit + 'M ' + it[3]}[it[2]])
            elif it[0] == 'n':
                lit = render_literal(it[1], sep, grouped or len(it) > 3)
                cur.append((it[2] if len(it) > 2 else '') + lit + (it[3] if len(it) > 3 else ''))
            else:
                lit = (it[2] if len(it) > 2 else '') + render_literal(it[1], sep, grouped)
                cur.append((lit + '%') if pct_suffix else ('%' + lit))
        else:
            cur.append(it)
    lines.append(' '.join(cur))
    # re-attach tokens the arithmetic class wants tight
    return '\n'.join(lines)


def value(slot):
    if slot is None or 'v' not in slot:
        return None
    v = dict(slot['v'])
    v.pop('names', None)
    return v


def print_problem(slot, sep, fmt):
    """C07 rendering of the slot's own value under its own convention and the format settings of the batch (numbers, percent, money)"""
    v = slot.get('v', {})
    k = v.get('k')
    out = slot.get('out', '')
    if k == 'number' and v.get('t') == 'Decimal':
        return check_print(mon.fval(slot), out, sep, fmt['digits'], fmt['rm'], fmt['round'])
    if k == 'percent':
        if not out.startswith('%'):
            return 'no % prefix'
        return check_print(mon.fval(slot), out[1:], sep, fmt['digits'], fmt['rm'], fmt['round'])
    if k == 'duration':
        # the counts of a span are whole numbers printed without grouping, in every convention (C10)
        want = c10.expected_print(v['secs'], 'en')
        return None if out == want else 'expected %r' % want
    if k == 'money':
        cur = lex.currencies().get(v['code'].lower())
        body = out.replace(cur['symbol'], '').strip()
        return check_print(mon.fval(slot), body, sep, cur['decimalDigits'], fmt['mrm'], fmt['mround'])
    return None


def run_shard(ctx):
    rng = ctx.rng
    res = ctx.res
    drv = ctx.driver()
    # one calculator per convention with a custom rule and a user unit whose *patterns* contain a number written in that convention
    # (set up once; the separators are set before the registration, as a user of that convention would do)
    setup = []
    for i, sp in enumerate(SEP_CONFIGS):
        c = 10 + i
        setup += [{'op': 'new_calc', 'c': c, 'seg': (i == 0)}] + mon.gh.config_ops(mon.cfg_with(dec=sp[0], thou=sp[1]), c, seg=False)
        # a user unit whose conversion codes contain a fraction (codes are written in the internal '.' notation whatever the convention)
        setup.append({'op': 'add_type', 'c': c, 'name': 'kitchen'})
        setup.append({'op': 'add_type_item', 'c': c, 'name': 'kitchen', 'index': 1, 'format': '{value} ml', 'parse': ['{NUMBER:value} {TEXT:type:mlq}'],
                      'up': '{value} / 236.5', 'down': '{value}', 'names': ['mlq']})
        setup.append({'op': 'add_type_item', 'c': c, 'name': 'kitchen', 'index': 2, 'format': '{value} mug', 'parse': ['{NUMBER:value} {TEXT:type:mugq}'],
                      'up': '{value}', 'down': '{value} * 236.5', 'names': ['mugq']})
        setup.append({'op': 'add_rule', 'c': c, 'lang': 'en', 'patterns': ['{NUMBER:n} per %s' % render_literal('1000', sp, True), '{NUMBER:n} half %s' % render_literal('0.5', sp)],
                      'spec': {'name': 'per', 'kind': 'encode', 'weights': {'n': 3}}})
    drv.run(setup)
    drv.run([{'op': 'session_new', 's': 1}, {'op': 'session_set_language', 's': 1, 'lang': 'en'}])
    while not ctx.out_of_time():
        # literals inside registered patterns follow the convention too
        pp = []
        for i, sp in enumerate(SEP_CONFIGS):
            nn = rng.choice(['250', '12.5', '7', '1234.5'])
            for text, want in (('%s per %s' % (render_literal(nn, sp), render_literal('1000', sp, True)), 3 * float(nn)),
                               ('%s per %s' % (render_literal(nn, sp), render_literal('1000', sp, False)), 3 * float(nn)),
                               ('%s half %s' % (render_literal(nn, sp), render_literal('0.5', sp)), 3 * float(nn))):
                pp.append((sp, text, want, {'op': 'execute', 'c': 10 + i, 'lang': 'en', 'text': text}))
            mm = rng.choice(['2.5', '1', '10', '0.5'])
            pp.append((sp, '%s mugq to mlq' % render_literal(mm, sp), ('unit', float(mm) * 236.5), {'op': 'execute', 'c': 10 + i, 'lang': 'en', 'text': '%s mugq to mlq' % render_literal(mm, sp)}))
            pp.append((sp, '%s mlq to mugq' % render_literal('473', sp), ('unit', 473 / 236.5), {'op': 'execute', 'c': 10 + i, 'lang': 'en', 'text': '%s mlq to mugq' % render_literal('473', sp)}))
        for (sp, text, want, op), r in zip(pp, drv.run([x[3] for x in pp])):
            if 'lines' not in r and 'panic' not in r:
                drv.run(setup)          # the driver was restarted after a crash: the calculators of the conventions are set up again
                res.count('pattern_calculators_set_up_again')
                break
            slot = mon.slot0(r)
            res.cases += 1
            res.count('class:literal-in-a-registered-pattern')
            res.distinct.add('pattern', sp, text)
            if isinstance(want, tuple):
                if mon.kind(slot) == 'unit' and abs(mon.fval(slot) - want[1]) <= 1e-9 * want[1]:
                    res.count('ok')
                else:
                    res.violation('sep:user-unit-code', 'under %r a user unit registered with the codes "{value} / 236.5" and "{value} * 236.5" should turn %r into %r, got %s'
                                  % (sp, text, want[1], mon.describe(slot)), {'lang': 'en', 'text': text, 'ops': [o for o in setup if o.get('c') == op['c']] + [op]})
            elif mon.kind(slot) == 'number' and mon.fval(slot) == want:
                res.count('ok')
            else:
                res.violation('sep:pattern-literal', 'under %r a rule registered with the patterns "{NUMBER:n} per %s" / "{NUMBER:n} half %s" should turn %r into %r, got %s'
                              % (sp, render_literal('1000', sp, True), render_literal('0.5', sp), text, want, mon.describe(slot)),
                              {'lang': 'en', 'text': text, 'ops': [o for o in setup if o.get('c') == op['c']] + [op]})
        structs = [gen_struct(rng) for _ in range(120)]
        pairs = [tuple(rng.sample(SEP_CONFIGS, 2)) for _ in structs]
        groupeds = [(rng.random() < 0.5, rng.random() < 0.5) for _ in structs]
        pct_suffix = [rng.random() < 0.7 for _ in structs]
        # the format settings of the batch (the same under every convention): they change what is printed, never what is computed
        fmt = rng.choice([{'digits': 2, 'rm': True, 'round': True, 'mrm': False, 'mround': True}] * 2 +
                         [{'digits': 0, 'rm': False, 'round': True, 'mrm': True, 'mround': False},
                          {'digits': 4, 'rm': False, 'round': False, 'mrm': False, 'mround': False},
                          {'digits': 3, 'rm': True, 'round': True, 'mrm': True, 'mround': True}])
        thou_first = rng.random() < 0.5      # order of the two separator setter calls (the result must not depend on it)
        res.count('setter_order:thousands-first' if thou_first else 'setter_order:decimal-first')
        results = {}
        texts = {}
        for sep in SEP_CONFIGS:
            idx = [i for i, p in enumerate(pairs) if sep in p]
            items = []
            for i in idx:
                g = groupeds[i][pairs[i].index(sep)]
                t = render(structs[i][1], sep, g, pct_suffix[i])
                texts[(i, sep)] = t
                items.append(('en', t))
            cfg = mon.cfg_with(dec=sep[0], thou=sep[1], thou_first=thou_first, **fmt)
            rs = mon.run_lines(drv, cfg, items)
            for i, r in zip(idx, rs):
                results[(i, sep)] = r
            # one Session object lives through all the convention changes of the shard: a text evaluated through it reads its
            # literals in the convention that is configured now, exactly like a fresh evaluation
            pick = rng.sample(range(len(items)), min(8, len(items)))
            sops = mon.gh.config_ops(cfg) + [o for k_ in pick for o in ({'op': 'session_set_text', 's': 1, 'text': items[k_][1]}, {'op': 'execute_session', 's': 1})]
            srs = drv.run(sops)[len(mon.gh.config_ops(cfg)):]
            for n_, k_ in enumerate(pick):
                sr = srs[2 * n_ + 1]
                if 'lines' not in sr and 'panic' not in sr:
                    drv.run([{'op': 'session_new', 's': 1}, {'op': 'session_set_language', 's': 1, 'lang': 'en'}])      # the driver was restarted
                    break
                res.cases += 1
                res.count('class:through-a-long-lived-session')
                a_, b_ = mon.last_slot(sr), mon.last_slot(rs[k_])
                if value(a_) == value(b_) and (a_ or {}).get('out') == (b_ or {}).get('out'):
                    res.count('ok')
                else:
                    res.violation('sep:long-lived-session', 'under %r the text %r gives %s through a fresh evaluation and %s through a Session object that has lived through other conventions'
                                  % (sep, items[k_][1], mon.describe(b_), mon.describe(a_)),
                                  {'lang': 'en', 'text': items[k_][1], 'conventions': [sep], 'ops': [{'op': 'session_new', 's': 1}, {'op': 'session_set_language', 's': 1, 'lang': 'en'}] + sops[:len(mon.gh.config_ops(cfg)) + 2 * n_ + 2]})
        for i, (cls, items) in enumerate(structs):
            s1, s2 = pairs[i]
            a, b = mon.last_slot(results[(i, s1)]), mon.last_slot(results[(i, s2)])
            res.cases += 1
            res.count('class:' + cls)
            va, vb = value(a), value(b)
            if va is None and vb is None and mon.kind(a) == mon.kind(b) and mon.kind(a) != 'abnormal':
                res.count('pairs_without_value')
                continue
            res.distinct.add(repr(items), s1, s2)
            problem, sig = None, None
            lit_problem = None
            if cls.startswith('literal:'):
                want = float(items[0][1])
                if len(items[0]) > 2 and items[0][2] == '-':
                    want = -want
                if len(items[0]) > 3:
                    want *= {'k': 1e3, 'M': 1e6}[items[0][3]]
                for s_, slot in ((s1, a), (s2, b)):
                    kk = mon.kind(slot)
                    if kk != cls.split(':')[1] or mon.fval(slot) != want or (kk == 'money' and slot['v']['code'].lower() != items[1].lower()):
                        lit_problem = 'under %r the literal %r denotes %s, intended: %s %r' % (s_, texts[(i, s_)], mon.describe(slot), cls.split(':')[1], want)
            if lit_problem:
                problem, sig = lit_problem, 'sep:%s' % cls
            elif va != vb:
                problem = 'under %r the line %r gives %s, under %r the line %r gives %s' % (s1, texts[(i, s1)], mon.describe(a), s2, texts[(i, s2)], mon.describe(b))
                sig = 'sep:value-differs:%s' % cls
            else:
                for s_, slot in ((s1, a), (s2, b)):
                    why = print_problem(slot, s_, fmt)
                    if why:
                        problem = 'under %r the line %r prints %r: %s' % (s_, texts[(i, s_)], slot.get('out'), why)
                        sig = 'sep:print:%s' % cls
                        break
            if problem is None:
                res.count('ok')
                if res.cases % 499 == 0:
                    res.sample({'conventions': [s1, s2], 'lines': [texts[(i, s1)], texts[(i, s2)]], 'value': mon.describe(a)})
                continue
            cfg1 = mon.cfg_with(dec=s1[0], thou=s1[1], thou_first=thou_first, **fmt)
            cfg2 = mon.cfg_with(dec=s2[0], thou=s2[1], thou_first=thou_first, **fmt)
            res.violation(sig, problem, {'lang': 'en', 'text': texts[(i, s1)], 'other_text': texts[(i, s2)], 'conventions': [s1, s2],
                                         'ops': mon.gh.config_ops(cfg1) + [{'op': 'execute', 'lang': 'en', 'text': texts[(i, s1)]}] +
                                                mon.gh.config_ops(cfg2, seg=False) + [{'op': 'execute', 'lang': 'en', 'text': texts[(i, s2)]}]})

"""C14 - unix timestamps convert to and from date-times as mutual inverses. DESIGN.md 3.C14."""

import calendar
import datetime

from . import lex, mon
from .c09 import gen_date, spell
from .c11 import gen_time, gen_zone

SPEC = {
    'rule': ('"N to date", "N date", "N to Z", "N Z" for N in neighbourhoods of {0, +-1, +-86399, +-86400, 2^31-1, 2^31, 2^32, 10^10, '
             '253402300799} and random instants of years 1..9999; "<date> as|to unix|unixtime|unixtimestamp" (also without connective), '
             '"<time> as unix", "<date> at <time> as unix" written directly and through a variable; the inverse laws through variables '
             '(timestamp -> date-time -> timestamp, date -> timestamp -> date-time); default zones UTC, EST, IST, GMT+5:30, NZDT, explicit zones '
             'from the table; several virtual dates. Oracle: Python datetime / calendar.timegm; printed date-times in the language\'s format. '
             'non-trivial = every case; distinct = distinct (default zone, virtual date, text)'),
    'min_nontrivial': 2000,
    'budget_s': {'quick': 35, 'thorough': 360},
    'assumptions': ['"in" after a number reads as inches (unit literal) and is not used as connective', 'en only (tr has no unix rules)',
                    '"at H" with a bare hour is read as that hour on the wall clock of the default zone (what the unchanged tree does under every default zone)'],
}

EDGE = [0, 1, 59, 60, 3599, 3600, 86399, 86400, 86401, 2**31 - 1, 2**31, 2**31 + 1, 2**32, 2**32 + 1, 10**9, 10**10, 1664582400, 253402300799, 253402214400,
        951782400, 1709164800, 1709251199, 1735689599, 1735689600]
MIN_TS = -62135596800
MAX_TS = 253402300799
DEFAULT_ZONES = [('UTC', 0), ('UTC', 0), ('EST', -300), ('IST', None), ('GMT+5:30', 330), ('NZDT', None), ('CET', None)]
EPOCH = datetime.datetime(1970, 1, 1)


def gen_ts(rng):
    r = rng.random()
    if r < 0.4:
        n = rng.choice(EDGE) + rng.choice([0, 0, 1, -1])
        if rng.random() < 0.25:
            n = -n
    elif r < 0.8:
        n = rng.randint(MIN_TS, MAX_TS)
    else:
        n = rng.randint(0, 2 * 10**9)
    return max(MIN_TS, min(MAX_TS, n))


def expected_dt_print(local, zone, today_year):
    fmts = lex.date_formats('en')
    fmt = fmts['current_year_with_time'] if local.year == today_year else fmts['full_date_time']
    long_, short = lex.print_months('en')
    ln = sorted(long_[local.month])[0]
    sn = sorted(short[local.month])[0]
    cap = lambda s: s[0].upper() + s[1:]
    return (fmt.replace('{second_pad}', '%02d' % local.second).replace('{minute_pad}', '%02d' % local.minute).replace('{hour_pad}', '%02d' % local.hour)
            .replace('{second}', str(local.second)).replace('{minute}', str(local.minute)).replace('{hour}', str(local.hour))
            .replace('{day_pad}', '%02d' % local.day).replace('{month_pad}', '%02d' % local.month).replace('{day}', str(local.day))
            .replace('{month_long}', cap(ln)).replace('{month_short}', cap(sn)).replace('{month}', str(local.month))
            .replace('{year}', str(local.year)).replace('{timezone}', zone))


def run_shard(ctx):
    rng = ctx.rng
    res = ctx.res
    clock_name, epoch = ctx.clock_for_shard()
    now = mon.virtual_now(epoch)
    today = now.date()
    drv = ctx.driver(epoch, rw=True)
    zones = sorted(lex.admissible_zones('en').items())
    table = lex.zones()
    while not ctx.out_of_time():
        dz, doff = rng.choice(DEFAULT_ZONES)
        if doff is None:
            doff = table[dz]
        cfg = mon.cfg_with(tz=dz)
        meta = []
        for _ in range(120):
            r = rng.random()
            if r < 0.4:
                n = gen_ts(rng)
                form = rng.choice(['to date', 'date', 'to-zone', 'zone', 'as date', 'roundtrip'])
                z, off = dz, doff
                if form in ('to-zone', 'zone'):
                    z, off = gen_zone(rng, zones)
                    text = '%d %s%s' % (n, 'to ' if form == 'to-zone' else '', z)
                    z = z.upper()
                elif form == 'roundtrip':
                    back = rng.choice(['as unix', 'to unix', 'as unixtime', 'unix', 'to unixtimestamp'])
                    if rng.random() < 0.1:
                        # the inverse law needs no calendar: also instants behind the year 9999 (the calculator reads and prints such years)
                        n = rng.choice([253402300800, 316516204800, 1664582400123, 8210266876799, rng.randint(253402300800, 8 * 10**12)])
                    if rng.random() < 0.4:
                        # both conversions on one line
                        text = '%d to %s %s' % (n, rng.choice(['date', 'date', gen_zone(rng, zones)[0]]), back)
                        meta.append((text, 'ts-datetime-ts:one-line', ('unix', n)))
                    else:
                        text = 'zq = %d to date\nzq %s' % (n, back)
                        meta.append((text, 'ts-datetime-ts', ('unix', n)))
                    continue
                elif n >= 0 and rng.random() < 0.1:
                    # the timestamp written as a based literal (it is a number like any other)
                    text = '%s to date' % rng.choice(['0x%X' % n, '0o%o' % n, '0b' + bin(n)[2:]])
                    form = 'based-literal-to-date'
                else:
                    text = '%d %s' % (n, form)
                meta.append((text, 'from-unix:' + form.replace(' ', '-'), ('datetime', n, z, off)))
            elif r < 0.65:
                d = gen_date(rng, today)
                dt, _ = spell(rng, 'en', d, today)
                conn = rng.choice(['as ', 'to ', '', 'as ', 'into '])
                word = rng.choice(['unix', 'unixtime', 'unixtimestamp'])
                n = calendar.timegm(d.timetuple())
                if rng.random() < 0.3:
                    text = 'zq = %s\nzq %s%s' % (dt, conn, word)
                    cls = 'date-to-unix:variable'
                elif rng.random() < 0.3:
                    if rng.random() < 0.5 and conn:
                        # both conversions on one line, to the default zone or to a requested one
                        if rng.random() < 0.5:
                            z2, off2 = gen_zone(rng, zones)
                            text = '%s %s%s to %s' % (dt, conn, word, z2)
                            meta.append((text, 'date-unix-datetime:one-line', ('datetime', n, z2.upper(), off2)))
                        else:
                            text = '%s %s%s to date' % (dt, conn, word)
                            meta.append((text, 'date-unix-datetime:one-line', ('datetime', n, dz, doff)))
                    else:
                        text = 'zq = %s %s%s\nzq to date' % (dt, conn, word)
                        meta.append((text, 'date-unix-datetime', ('datetime', n, dz, doff)))
                    continue
                else:
                    text = '%s %s%s' % (dt, conn, word)
                    cls = 'date-to-unix'
                meta.append((text, cls, ('unix', n)))
            elif r < 0.8:
                tt, W = gen_time(rng)
                n = calendar.timegm(today.timetuple()) + W - doff * 60
                conn = rng.choice(['as ', 'to ', ''])
                if rng.random() < 0.3:
                    text = 'zq = %s\nzq %sunix' % (tt, conn)
                    cls = 'time-to-unix:variable'
                else:
                    text = '%s %sunix' % (tt, conn)
                    cls = 'time-to-unix'
                meta.append((text, cls, ('unix', n)))
            else:
                d = gen_date(rng, today)
                dt, _ = spell(rng, 'en', d, today)
                if rng.random() < 0.25:
                    h = rng.randint(0, 23)          # a bare hour behind 'at' is that hour on the wall clock of the default zone
                    tt, W = str(h), h * 3600
                else:
                    tt, W = gen_time(rng)
                n = calendar.timegm(d.timetuple()) + W - doff * 60
                if not (MIN_TS <= n <= MAX_TS):
                    continue
                conn = rng.choice(['as ', 'to ', ''])
                rr = rng.random()
                if rr < 0.2:
                    # the date and the time held by names
                    text = 'wv = %s\nmk = %s\nwv at mk %sunix' % (dt, tt, conn)
                    cls = 'datetime-to-unix:parts-in-variables'
                elif rr < 0.5:
                    text = 'zq = %s at %s\nzq %sunix' % (dt, tt, conn)
                    cls = 'datetime-to-unix:variable'
                else:
                    text = '%s at %s %sunix' % (dt, tt, conn)
                    cls = 'datetime-to-unix:direct'
                meta.append((text, cls, ('unix', n)))
        rs = mon.run_lines(drv, cfg, [('en', m[0]) for m in meta])
        for (text, cls, want), r in zip(meta, rs):
            slot = mon.last_slot(r)
            res.cases += 1
            res.note_rw(r)
            res.count('class:' + cls.split(':')[0])
            res.distinct.add(dz, clock_name, text)
            k = mon.kind(slot)
            problem = None
            sig = 'unix:' + cls
            if want[0] == 'unix':
                n = want[1]
                if k != 'number' or mon.fval(slot) != float(n):
                    problem = 'expected the timestamp %d, got %s' % (n, mon.describe(slot))
                elif slot['out'] != str(n):
                    problem = 'timestamp %d prints %r' % (n, slot['out'])
                    sig = 'unix:print:%s' % ('big' if abs(n) >= 2**31 else 'small')
            else:
                _, n, z, off = want
                utc = EPOCH + datetime.timedelta(seconds=n)
                if k != 'datetime':
                    problem = 'expected the instant %s UTC in %s, got %s' % (utc, z, mon.describe(slot))
                else:
                    v = slot['v']
                    got = mon.parse_datetime(v['utc'])
                    if got != utc:
                        problem = 'expected the instant %s UTC, value holds %s' % (utc, v['utc'])
                    elif v['zone'] != z or v['off'] != off:
                        problem = 'expected zone %s (%+d), got %s (%+d)' % (z, off, v['zone'], v['off'])
                    else:
                        try:
                            local = utc + datetime.timedelta(minutes=off)
                        except OverflowError:
                            local = None
                        if local is not None:
                            exp = expected_dt_print(local, z, today.year)
                            if slot['out'] != exp:
                                problem = 'prints %r, expected %r' % (slot['out'], exp)
                                sig = 'unix:print-datetime'
            if problem is None:
                res.count('ok')
                if res.cases % 499 == 0:
                    res.sample({'default_zone': dz, 'virtual_today': str(today), 'text': text, 'observed': mon.describe(slot)})
                continue
            if k == 'abnormal':
                sig += ':abnormal'
            res.violation(sig, '%r (default zone %s, today %s): %s' % (text, dz, today, problem),
                          {'config': cfg, 'lang': 'en', 'text': text, 'epoch': epoch, 'observed': mon.describe(slot),
                           'ops': mon.gh.config_ops(cfg) + [{'op': 'execute', 'lang': 'en', 'text': text}]})

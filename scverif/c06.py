"""C06 - money literals, currency conversion and money arithmetic. DESIGN.md 3.C06."""

import re
from fractions import Fraction

from . import lex, mon
from .numfmt import SEP_CONFIGS, render_literal

SPEC = {
    'rule': ('money literals in every spelling (symbol before/after, code with/without blank in any case, alias words, k/M suffix), '
             'conversion over all ordered pairs of rated currencies x connectives {to, as, in, into, none} x target spellings (code, alias), '
             'M1 +- M2, M*n, M/n, M1/M2; histories of 30-300 interleaved update_currency calls (code, alias, symbol, unknown name, '
             'currency without an initial rate) and evaluations on one calculator, with the configuration fingerprint (hook H3) diffed '
             'around every update. Oracle: model rate table (config.json + updates) in exact rationals, tolerance 1e-12 x magnitude. '
             'non-trivial = every judged evaluation; distinct = distinct (separators, rate-table state, text)'),
    'min_nontrivial': 2000,
    'budget_s': {'quick': 35, 'thorough': 360},
    'assumptions': ['rates are positive', 'currency codes that are also zone abbreviations (TMT, WST) are not used: C11 states that ambiguity', 'only money-on-the-left scaling is judged ($5 * 2)'],
}

AMOUNTS = ['1', '2', '5', '10', '12.5', '99.99', '100', '250', '1000', '1234.56', '0.5', '1000000', '0', '19.9', '3']
SYMBOLS = {'usd': '$', 'eur': '€', 'try': '₺'}


def alias_words():
    """alias words (any script) usable right after an amount -> code"""
    out = {}
    for w, code in lex.currency_alias().items():
        if w.isalpha() and len(w) >= 2:
            out[w] = code
    return out


def target_words():
    out = {}
    for w, code in lex.currency_alias().items():
        if w.isalpha():
            out[w] = code
    return out


def literal(rng, canon, code, sep, aliases):
    """-> (text, multiplier)"""
    lit = render_literal(canon, sep, rng.random() < 0.25)
    r = rng.random()
    if code in SYMBOLS and r < 0.2:
        sym = SYMBOLS[code]
        form = rng.randrange(5)
        if form == 0:
            return sym + lit, 1
        if form == 1:
            return lit + sym, 1
        if form == 2:
            return lit + ' ' + sym, 1
        if form == 3:
            return sym + lit + 'k', 1000
        return sym + lit + 'M', 1000000
    words = [w for w, c in aliases.items() if c == code and w != code]
    if words and r < 0.35:
        return lit + ' ' + rng.choice(words), 1
    if r < 0.47:
        k = rng.choice(['k', 'M'])
        return '%s%s %s' % (lit, k, code), (1000 if k == 'k' else 1000000)
    c = rng.choice([code, code.upper(), code.capitalize()])
    text = lit + rng.choice([' ', '', ' ']) + c
    if re.match(r'0[xX][0-9a-fA-F]|0[oO][0-7]|0[bB][01]', text):
        text = lit + ' ' + c            # '0xaf' is the hexadecimal literal (C13), zero CFA francs need the blank
    return text, 1


BASE_RATED = frozenset(k for k in lex.rates() if k in lex.currencies())
COV = []          # (finite sub-space, item) pairs of the case being generated


class Rates:
    def __init__(self):
        self.r = {k: Fraction(v) for k, v in lex.rates().items() if k in lex.currencies()}
        self.version = 0

    def convert(self, x, a, b):
        return x * self.r[b] / self.r[a]


def gen_case(rng, rates, sep, aliases, targets, connectives=True):
    """-> (text, class, expected) ; expected = ('money', code, value, scale) | ('number', value, scale)"""
    rated = sorted(rates.r)
    a = rng.choice(rated)
    b = rng.choice(rated)
    xs = rng.choice(AMOUNTS)
    xt, mult = literal(rng, xs, a, sep, aliases)
    X = Fraction(xs) * mult
    r = rng.random()
    if r < 0.12:
        COV.append(('currency as literal', a))
        return xt, 'literal', ('money', a, X, abs(X))
    if r < 0.6:
        conn = rng.choice(['to ', 'as ', 'in ', 'into ', '', 'TO ', 'As ']) if connectives else ''
        tw = [w for w, c in targets.items() if c == b and w != b]
        tgt = rng.choice(tw) if (tw and rng.random() < 0.3) else rng.choice([b, b.upper(), b.capitalize()])
        want = rates.convert(X, a, b)
        COV.append(('ordered currency pair converted', '%s>%s' % (a, b)))
        COV.append(('conversion connective', conn.strip().lower() or '(none)'))
        return '%s %s%s' % (xt, conn, tgt), ('convert-same' if a == b else 'convert'), ('money', b, want, abs(want))
    ys = rng.choice(AMOUNTS)
    yt, ym = literal(rng, ys, b, sep, aliases)
    Y = Fraction(ys) * ym
    Yc = rates.convert(Y, b, a)
    COV.append(('ordered currency pair in + - /', '%s>%s' % (a, b)))
    if r < 0.7:
        return '%s + %s' % (xt, yt), 'add', ('money', a, X + Yc, abs(X) + abs(Yc))
    if r < 0.8:
        return '%s - %s' % (xt, yt), 'sub', ('money', a, X - Yc, abs(X) + abs(Yc))
    n = rng.choice(['2', '3', '0.5', '10', '7', '1.25', '0.0000000000000001', '0.000000000000000125', '1000000000000000000'])        # also tiny and huge scalars
    nt = render_literal(n, sep)
    if rng.random() < 0.15:
        n, nt = rng.choice([('16', '0x10'), ('8', '0o10'), ('2', '0b10'), ('255', '0xFF'), ('4', '0B100')])          # a number is a number in whatever base it is written
    if r < 0.87:
        return '%s * %s' % (xt, nt), 'scale*', ('money', a, X * Fraction(n), abs(X * Fraction(n)))
    if r < 0.94:
        return '%s / %s' % (xt, nt), 'scale/', ('money', a, X / Fraction(n), abs(X / Fraction(n)))
    want = (X / Yc) if Yc else Fraction(0)
    return '%s / %s' % (xt, yt), 'ratio', ('number', want, abs(want))


def judge(slot, exp, exact=False):
    k = mon.kind(slot)
    if exp[0] == 'money':
        _, code, want, scale = exp
        if k != 'money':
            return 'expected %r %s, got %s' % (float(want), code, mon.describe(slot))
        if slot['v']['code'].lower() != code:
            return 'expected money in %s, got %s' % (code, mon.describe(slot))
        if exact:
            if mon.fval(slot) != float(want):
                return 'an amount converted into its own currency must stay the same amount: expected %r %s, got %r' % (float(want), code, mon.fval(slot))
            return None
        if not mon.close(mon.fval(slot), want, scale if scale else 1):
            return 'expected %r %s, got %r' % (float(want), code, mon.fval(slot))
        return None
    _, want, scale = exp
    if k != 'number':
        return 'expected the plain number %r, got %s' % (float(want), mon.describe(slot))
    if not mon.close(mon.fval(slot), want, scale if scale else 1):
        return 'expected %r, got %r' % (float(want), mon.fval(slot))
    return None


def fp_rates(fp):
    out = {}
    other = []
    for line in fp.split('\n'):
        if line.startswith('rate '):
            _, code, val = line.split(' ', 2)
            out[code.lower()] = val
        else:
            other.append(line)
    return out, '\n'.join(other)


def add_eval(ops, rng, text, lang='en'):
    """one evaluation of `text`: through execute, or through the long-lived session of the history"""
    if rng.random() < 0.33:
        ops.append({'op': 'session_set_text', 's': 1, 'text': text})
        ops.append({'op': 'execute_session', 's': 1, 'via_session': True})
    else:
        ops.append({'op': 'execute', 'lang': lang, 'text': text})


def run_shard(ctx):
    rng = ctx.rng
    res = ctx.res
    drv = ctx.driver(rw=True)
    aliases = alias_words()
    targets = target_words()
    zone_names = {z.lower() for z in lex.zones()}
    # codes that are also zone abbreviations (tmt, wst, ...) are lexically ambiguous and left out (see C11's statement)
    all_codes = sorted(c for c in lex.currencies() if c not in zone_names and c not in lex.all_words('en') - set(lex.currencies()))
    while not ctx.out_of_time():
        sep = rng.choice(SEP_CONFIGS) if rng.random() < 0.5 else SEP_CONFIGS[0]
        cfg = mon.cfg_with(dec=sep[0], thou=sep[1], noise=rng.random() < 0.25)
        # money literals, sums, scaling, ratios and conversions without a connective need no words: every configured language reads them
        lang = 'en' if rng.random() < 0.75 else rng.choice(lex.languages())
        rates = Rates()
        if rng.random() < 0.2:
            # "the configured rate table": a calculator built (load_from_json) from the shipped configuration text in which some rates
            # were changed and a currency without a rate was given one
            import os
            from . import core
            edits = []
            for code in rng.sample(sorted(rates.r), 4) + [rng.choice([c_ for c_ in all_codes if c_ not in rates.r])]:
                v = rng.choice([20.0, 0.5, 2.0, 123.456, 0.0125, 7.75, 1000.0])
                edits.append(['/currency_rates/%s' % code, v])
                rates.r[code] = Fraction(v)
            ops = [{'op': 'new_calc_json', 'seg': True, 'c': 0, 'path': os.path.join(core.REPO, 'src/json/config.json'), 'set': edits}] + mon.gh.config_ops(cfg, seg=False)
            res.count('histories_on_a_calculator_built_from_an_edited_rate_table')
        else:
            ops = [{'op': 'new_calc', 'seg': True}] + mon.gh.config_ops(cfg, seg=False)
        # a Session object that lives as long as the calculator: a third of the evaluations go through it ("a changed rate takes
        # effect in all later evaluations" - also in those of a session that converted the currency before the change)
        ops += [{'op': 'session_new', 's': 1}, {'op': 'session_set_language', 's': 1, 'lang': lang}]
        meta = {}
        n_hist = rng.randint(30, 300)
        pending_fp = None
        for _ in range(n_hist):
            if rng.random() < 0.08:
                # a rate update, with the fingerprint before and after
                r = rng.random()
                rated = sorted(rates.r)
                if r < 0.45:
                    code = rng.choice(rated)
                    name = rng.choice([code, code.upper(), code.capitalize()])
                elif r < 0.65:
                    name, code = rng.choice(sorted(targets.items()))
                    name = rng.choice([name, name.upper()])
                elif r < 0.75:
                    name, code = rng.choice([('$', 'usd'), ('₺', 'try'), ('€', 'eur')])
                elif r < 0.88:
                    name, code = rng.choice(['xyz', 'dollars', '', 'us d', 'usdx', '10']), None
                else:
                    code = rng.choice(all_codes)
                    name = code
                new_rate = rng.choice([0.5, 2.0, 8.0, 1.0, 123.456, 0.0123, 7.75, 1e-3, 1e6, rng.uniform(0.01, 500)])
                ops.append({'op': 'fingerprint', 'full': True})
                i0 = len(ops) - 1
                ops.append({'op': 'update_currency', 'cur': name, 'rate': new_rate})
                ops.append({'op': 'fingerprint', 'full': True})
                meta[len(ops) - 2] = ('update', name, code, new_rate, i0, len(ops) - 1, dict(rates.r))
                if code is not None:
                    rates.r[code] = Fraction(new_rate)
                    rates.version += 1
                    # evaluations that involve the updated currency, and some that do not
                    for _k in range(4):
                        other = rng.choice(sorted(rates.r))
                        a, b = (code, other) if rng.random() < 0.5 else (other, code)
                        xs = rng.choice(AMOUNTS)
                        text = ('%s %s to %s' if lex.word_group(lang, 'conversion_group') else '%s %s %s') % (render_literal(xs, sep), a, b)
                        add_eval(ops, rng, text, lang)
                        meta[len(ops) - 1] = ('eval', text, 'after-update', ('money', b, rates.convert(Fraction(xs), a, b), abs(rates.convert(Fraction(xs), a, b))), rates.version)
            elif rng.random() < 0.1:
                # one and the same currency - rated or not - needs no rate: literal, identity conversion, + - / and scaling
                c = rng.choice(all_codes)
                xs, ys = rng.choice(AMOUNTS), rng.choice(AMOUNTS)
                X, Y = Fraction(xs), Fraction(ys)
                sp = lambda v: '%s %s' % (render_literal(v, sep, rng.random() < 0.25), rng.choice([c, c.upper()]))
                form = rng.randrange(6)
                if form == 0:
                    text, exp = sp(xs), ('money', c, X, abs(X))
                elif form == 1:
                    text, exp = '%s %s%s' % (sp(xs), rng.choice(['to ', 'as ', 'in ', '']) if lex.word_group(lang, 'conversion_group') else '', c), ('money', c, X, abs(X))
                elif form == 2:
                    text, exp = '%s + %s' % (sp(xs), sp(ys)), ('money', c, X + Y, abs(X) + abs(Y))
                elif form == 3:
                    text, exp = '%s - %s' % (sp(xs), sp(ys)), ('money', c, X - Y, abs(X) + abs(Y))
                elif form == 4:
                    text, exp = '%s / %s' % (sp(xs), sp(ys)), ('number', (X / Y) if Y else Fraction(0), abs(X / Y) if Y else 1)
                else:
                    n = rng.choice(['2', '3', '10', '7'])
                    text, exp = '%s * %s' % (sp(xs), n), ('money', c, X * Fraction(n), abs(X * Fraction(n)))
                add_eval(ops, rng, text, lang)
                meta[len(ops) - 1] = ('eval', text, 'same-currency' + ('' if c in BASE_RATED else ':no-rate'), exp, rates.version)
                res.cover('currency in same-currency operations', c, len(all_codes))
            else:
                del COV[:]
                text, cls, exp = gen_case(rng, rates, sep, aliases, targets, connectives=bool(lex.word_group(lang, 'conversion_group')))
                add_eval(ops, rng, text, lang)
                meta[len(ops) - 1] = ('eval', text, cls, exp, rates.version)
                for space, item in COV:
                    if 'pair' in space:
                        if all(c in BASE_RATED for c in item.split('>')):
                            res.cover(space + ' (initially rated)', item, len(BASE_RATED) ** 2)
                    elif 'literal' in space:
                        if item in BASE_RATED:
                            res.cover(space + ' (initially rated)', item, len(BASE_RATED))
                    else:
                        res.cover(space, item)
        rs = drv.run(ops)
        for idx, m in meta.items():
            r = rs[idx]
            if m[0] == 'eval':
                _, text, cls, exp, version = m
                slot = mon.slot0(r)
                res.cases += 1
                res.note_rw(r)
                res.count('class:' + cls)
                res.count('lang:' + lang)
                if ops[idx].get('via_session'):
                    res.count('evaluations_through_the_long_lived_session')
                res.distinct.add(sep, version and (idx, ctx.shard, res.cases), text)
                why = judge(slot, exp, exact=(cls == 'convert-same'))
                if why is None:
                    res.count('ok')
                    if res.cases % 499 == 0:
                        res.sample({'separators': sep, 'rate_updates_before': version, 'text': text, 'observed': mon.describe(slot)})
                    continue
                res.violation('money:%s%s%s' % (cls, ':after-updates' if version else '', ':session' if ops[idx].get('via_session') else ''), '%r (after %d rate updates%s): %s' % (text, version, ', through the re-used session' if ops[idx].get('via_session') else '', why),
                              {'config': cfg, 'lang': lang, 'text': text, 'observed': mon.describe(slot),
                               'ops': [o for o in ops[:idx] if o['op'] not in ('execute', 'fingerprint')] + [ops[idx]]})
            else:
                _, name, code, new_rate, i0, i1, before_model = m
                res.cases += 1
                res.count('class:update_currency')
                ok = r.get('ok')
                want_ok = code is not None
                if 'panic' in r or ok is not want_ok:
                    res.violation('money:update-return', 'update_currency(%r, %r) returned %r, expected %r' % (name, new_rate, r.get('ok', r), want_ok),
                                  {'ops': [o for o in ops[:idx + 1] if o['op'] not in ('execute', 'fingerprint')]})
                    continue
                fa, fb = rs[i0].get('fp'), rs[i1].get('fp')
                if fa is None or fb is None:
                    continue
                ra, oa = fp_rates(fa)
                rb, ob = fp_rates(fb)
                changed = {k for k in set(ra) | set(rb) if ra.get(k) != rb.get(k)}
                allowed = {code} if code else set()
                res.count('h3_fingerprint_diffs_checked')
                if not changed <= allowed or oa != ob:
                    res.violation('money:update-touches-other-state', 'update_currency(%r, %r) changed %s%s' % (name, new_rate, sorted(changed), '' if oa == ob else ' and non-rate configuration state'),
                                  {'ops': [o for o in ops[:idx + 1] if o['op'] not in ('execute', 'fingerprint')]})
                else:
                    res.count('ok')

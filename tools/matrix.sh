#!/bin/sh
# usage: tools/matrix.sh [budget_s] [id-prefix]  -- applies every kept seeded change to /repo in turn, runs the quick check of its property,
# undoes it, records the outcome in seeded/<id>/trial.txt and in meta.json, and writes seeded/MATRIX.md
budget="${1:-20}"; prefix="${2:-C}"
cd /verif || exit 2
if ! git -C /repo diff --quiet; then echo "/repo has uncommitted changes"; exit 2; fi
for d in seeded/${prefix}*/; do
  id=$(basename "$d"); prop=${id%%-*}
  if grep -q '"neutralised_by_fix"' "$d/meta.json"; then echo "$id neutralised"; continue; fi
  if ! git -C /repo apply "/verif/$d/patch.diff" 2>/dev/null; then echo "$id PATCH-DOES-NOT-APPLY"; echo "patch does not apply to the current tree" > "$d/trial.txt"; continue; fi
  ./verif check "$prop" --budget "$budget" > /tmp/matrix_$id.out 2>&1; rc=$?
  git -C /repo checkout -- .
  { echo "check: ./verif check $prop --budget $budget (VERIF_SEED=${VERIF_SEED:-0}), /repo at $(git -C /repo log --format=%h -1) + patch.diff; exit code $rc"; grep -E "^(VIOLATION|INCONCLUSIVE|NOTE)|^  signature" /tmp/matrix_$id.out | grep -v "^VIOLATION" | head -12; } > "$d/trial.txt"
  python3 - "$d" "$rc" <<'PY'
import json,sys,re
d,rc=sys.argv[1],int(sys.argv[2])
m=json.load(open(d+'/meta.json'))
sigs=[l.split(':',1)[1].strip() for l in open(d+'/trial.txt') if l.startswith('  signature:')]
m['detected_by_quick_check']='yes' if rc==1 else ('inconclusive' if rc==2 else 'no')
m['signatures_reported']=sigs[:12]
json.dump(m,open(d+'/meta.json','w'),indent=1)
PY
  echo "$id rc=$rc $(grep -c '^VIOLATION' /tmp/matrix_$id.out) signatures"
  rm -f /tmp/matrix_$id.out
done
python3 - <<'PY'
import json,os
rows=[]
for d in sorted(os.listdir('/verif/seeded')):
    p='/verif/seeded/%s/meta.json'%d
    if not os.path.exists(p): continue
    m=json.load(open(p))
    title=''
    np='/verif/seeded/%s/notes.md'%d
    if os.path.exists(np): title=open(np).read().strip().split('\n')[0].lstrip('# ').strip()
    det=m.get('detected_by_quick_check')
    if m.get('neutralised_by_fix'): det='n/a (neutralised by fix %s)'%m['neutralised_by_fix']
    sig=', '.join('`%s`'%s.split(' (')[0] for s in m.get('signatures_reported',[])[:2])
    rows.append('| %s | %s | %s | %s | %s |'%(d,title[:110].replace('|','/'),det,sig,'yes' if m.get('missed_by_the_check_as_it_was_when_the_change_was_made') else ''))
open('/verif/seeded/MATRIX.md','w').write('# Seeded changes x quick checks (written by tools/matrix.sh)\n\n| id | change | reported by the quick check of its property | first signatures | missed at first (check strengthened since) |\n|---|---|---|---|---|\n'+'\n'.join(rows)+'\n')
print(len(rows),'rows')
PY

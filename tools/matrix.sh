#!/bin/sh
# usage: tools/matrix.sh [budget_s] [id-glob]  -- tries every kept seeded change against the quick check of its property and records the
# outcome in seeded/<id>/trial.txt, seeded/<id>/meta.json and seeded/MATRIX.md.
# It works on a scratch worktree of /repo (HEAD) and a scratch copy of the driver crate under /tmp/scverif-matrix, selected through
# SCVERIF_REPO / SCVERIF_DRIVER_DIR (see scverif/core.py), so /repo itself is not touched and other checks can run meanwhile.
budget="${1:-20}"; glob="${2:-C}"
cd /verif || exit 2
MX=/tmp/scverif-matrix
rm -rf "$MX/driver" "$MX/work" "$MX/evidence" "$MX/replays"; mkdir -p "$MX"
git -C /repo worktree remove --force "$MX/repo" 2>/dev/null; git -C /repo worktree prune
git -C /repo worktree add -q --detach "$MX/repo" HEAD || exit 2
cp /repo/Cargo.lock "$MX/repo/" 2>/dev/null
mkdir -p "$MX/driver" && cp -r driver/Cargo.toml driver/src "$MX/driver/" && cp driver/Cargo.lock "$MX/driver/" 2>/dev/null
sed -i "s|path = \"/repo\"|path = \"$MX/repo\"|" "$MX/driver/Cargo.toml"
export SCVERIF_REPO="$MX/repo" SCVERIF_DRIVER_DIR="$MX/driver" SCVERIF_WORK_DIR="$MX/work" SCVERIF_EVIDENCE_DIR="$MX/evidence" SCVERIF_REPLAY_DIR="$MX/replays"
for d in seeded/${glob}*/; do
  id=$(basename "$d"); prop=${id%%-*}
  [ -f "$d/meta.json" ] || continue
  # a change whose behaviour belongs to another property is tried against that property's check (meta key check_with)
  other=$(python3 -c "import json,sys; print(json.load(open(sys.argv[1])).get('check_with',''))" "$d/meta.json"); [ -n "$other" ] && prop=$other
  if grep -q '"neutralised_by_fix"' "$d/meta.json"; then echo "$id neutralised"; continue; fi
  git -C "$MX/repo" checkout -q -- .
  if ! git -C "$MX/repo" apply "/verif/$d/patch.diff" 2>/dev/null; then echo "$id PATCH-DOES-NOT-APPLY"; echo "patch does not apply to the current tree" > "$d/trial.txt"; continue; fi
  ./verif check "$prop" --budget "$budget" > "$MX/out_$id.txt" 2>&1; rc=$?
  git -C "$MX/repo" checkout -q -- .
  { echo "check: ./verif check $prop --budget $budget (VERIF_SEED=${VERIF_SEED:-0}) on a scratch worktree of /repo at $(git -C "$MX/repo" log --format=%h -1) + patch.diff; exit code $rc"; grep -E "^(INCONCLUSIVE|NOTE)|^  signature" "$MX/out_$id.txt" | head -12; } > "$d/trial.txt"
  python3 - "$d" "$rc" <<'PY'
import json,sys
d,rc=sys.argv[1],int(sys.argv[2])
m=json.load(open(d+'/meta.json'))
sigs=[l.split(':',1)[1].strip() for l in open(d+'/trial.txt') if l.startswith('  signature:')]
m['detected_by_quick_check']='yes' if rc==1 else ('inconclusive' if rc==2 else 'no')
m['signatures_reported']=sigs[:12]
json.dump(m,open(d+'/meta.json','w'),indent=1)
PY
  echo "$id rc=$rc $(grep -c '^VIOLATION' "$MX/out_$id.txt") signatures"
  rm -f "$MX/out_$id.txt"
done
git -C /repo worktree remove --force "$MX/repo"; rm -rf "$MX"
python3 - <<'PY'
import json,os
rows=[]
for d in sorted(os.listdir('/verif/seeded'), key=lambda x:(x.split('-m')[0], int(x.split('-m')[1])) if '-m' in x else (x,0)):
    p='/verif/seeded/%s/meta.json'%d
    if not os.path.exists(p): continue
    m=json.load(open(p))
    title=''
    np='/verif/seeded/%s/notes.md'%d
    if os.path.exists(np): title=open(np).read().strip().split('\n')[0].lstrip('# ').strip()
    det=m.get('detected_by_quick_check')
    if m.get('neutralised_by_fix'): det='n/a (neutralised by fix %s)'%m['neutralised_by_fix']
    elif m.get('check_with'): det='%s, by the check of %s (not by its own)'%(det, m['check_with'])
    sig=', '.join('`%s`'%s.split(' (')[0][:70] for s in m.get('signatures_reported',[])[:2])
    rows.append('| %s | %s | %s | %s | %s |'%(d,title[:110].replace('|','/'),det,sig,'yes' if m.get('missed_by_the_check_as_it_was_when_the_change_was_made') else ''))
open('/verif/seeded/MATRIX.md','w').write('# Seeded changes x quick checks (written by tools/matrix.sh)\n\n| id | change | reported by the quick check of its property | first signatures | missed at first (check strengthened since) |\n|---|---|---|---|---|\n'+'\n'.join(rows)+'\n')
print(len(rows),'rows')
PY

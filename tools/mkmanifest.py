#!/usr/bin/env python3
"""Regenerate MANIFEST.json from the monitors that exist (run from /verif)."""
import json, os, subprocess, sys
ROOT = os.path.dirname(os.path.dirname(os.path.abspath(__file__)))
sys.path.insert(0, ROOT)

LEVEL_TEXT = {
 'C01': 'Held-on-observed: 10^5-10^7 hostile texts per run (lexeme soup over the whole lexicon, mutated test lines, extreme phrases, case-length-changing Unicode, multi-line assemblies with sentinels) under hostile configurations (separators, digits, zones, user unit families with index gaps, custom rules), unknown language tags, several virtual dates and process zones, through execute and through re-used Session objects; thorough tier adds a coverage-guided libFuzzer lens whose artifacts and corpus are re-judged through the driver; oracle = no panic / step budget (hook H1) / CPU watchdog / slot count / slot shape / sentinel values. Totality over all inputs cannot be proved by running; bounded progress replaces "terminates".',
 'C02': 'Held-on-observed: random expression trees and all ~45 000 small trees (<= 3 leaves, nested sign prefixes, signed / zero suffixed literals) rendered in several spacings and separator conventions, compared bit-exactly with an independent IEEE-double evaluation of the same tree; violating cases are shrunk structurally before being classified.',
 'C03': 'Held-on-observed: generated straight-line programs (re-binding, self-reference, copies, failing lines, prefix-related multi-word names, every value kind) judged line by line against an executable environment model; numeric lines bit-exact.',
 'C04': 'Held-on-observed: call histories. A long-lived calculator is compared text by text with calculators that saw another order / nothing before (history independence, variable leaks, near-duplicate value families, rules registered after evaluations), and set_text / execute_session histories on re-used and interleaved sessions (texts growing and shrinking, the identical text set again, language switches, texts never evaluated) are compared with one execute of the concatenated program; hook H3 (configuration fingerprint) and the hook log of started lines give the observability.',
 'C05': 'Held-on-observed: the seven phrases in all operand orders, spellings, all 159 unambiguous currencies (rated or not) and separator conventions, operators glued to operands, operands also via variables, against exact rational formulas with a cancellation-safe tolerance; kind and currency must match exactly.',
 'C06': 'Held-on-observed: money literal spellings, all rated currency pairs, money arithmetic, same-currency operations for every configured currency, and histories of update_currency interleaved with evaluations against a model rate table in exact rationals; hook H3 confirms that an update touches exactly one rate.',
 'C07': 'Held-on-observed: numbers, percentages, money (all currencies) and unit quantities printed from chosen doubles on rounding boundaries under every digits (0..40) / removal / rounding / separator setting (incl. multi-byte and multi-character separators), judged by exact decimal arithmetic.',
 'C08': 'Held-on-observed: metamorphic - the same structured line rendered under two separator conventions must denote the same value, and each print must be the C07 rendering in its own convention; unit conversions and values through variables weighted up; single literals against their canonical value, both orders of the separator setters, varied format settings, literals inside registered rule patterns.',
 'C09': 'Held-on-observed: date spellings of both languages, impossible dates, date arithmetic in days/weeks/months/years, negative spans, dates moved to another zone, date differences and day words under several virtual dates and default zones, against Python datetime; known structural defects are matched by defect models, anything else is a fresh violation.',
 'C10': 'Held-on-observed: duration parts, runs, sums, differences and "as" conversions in en and tr against the unit lengths of the statement; value exact in seconds, print must be the greedy decomposition in the language\'s words.',
 'C11': 'Held-on-observed: time spellings, anchoring, conversion over the admissible zone table and GMT forms, shifting and differences under several default zones and process TZ values, against (wall - off1 + off2) mod 24 h; set_timezone / get_time_offset protocol checked against the table.',
 'C12': 'Held-on-observed: all 332 in-kind ordered unit pairs and all cross-kind pairs under the four separator conventions, round trips / two-step conversions through variables, and quantity arithmetic, against exact standard definitions (not config.json).',
 'C13': 'Held-on-observed: based literals, arithmetic keeping the left base, operation chains with division and fractions (also through variables), varied number format settings, conversion phrases incl. fractional N, and the round trip of every printed literal, against Python int()/format() on boundary and random integers up to 2^63-1.',
 'C14': 'Held-on-observed: timestamp -> date-time, date / time / date-time -> timestamp (directly and through variables) and both inverse laws under several default zones and virtual dates, against Python datetime / timegm; printed timestamps must show every digit.',
 'C15': 'Held-on-observed: the printed form of results of every kind is typed back under the same configuration and language and must print identically (8 kinds x 4 separator conventions x 3 digit settings x 2 languages).',
 'C16': 'Held-on-observed: metamorphic - widening blanks, adding blanks at both ends, appending comments drawn from the lexicon and re-casing the word classes named by the statement (incl. currency alias words, WST/TMT as zones, names re-bound in another spelling, multi-byte capitals before month names, en and tr) must not change the value; blank / comment-only lines must be empty.',
 'C17': 'Held-on-observed: invariant monitor on the highlight tokens of every line of hostile and multi-byte-laden texts (character spans, ordered, non-overlapping) plus exact expected spans for number (incl. based) / operator / comment tokens of structured lines, some longer than 65 536 characters.',
 'C18': 'Held-on-observed: histories of add_rule / delete_rule / add_dynamic_type / add_dynamic_type_item interleaved with evaluations against a model calculator; after every history the calculator must agree with a fresh one on which only the surviving registrations were replayed (probe battery), hook H3 as lead; language-dependent and one-word patterns; a declined pattern match must behave like an absent pattern.',
 'C19': 'Held-on-observed: metamorphic - word-dependent forms translated word by word (every configured spelling) into every configured language must have the same value as in English and print in the language\'s own words (also judged against the C09/C10 oracles); word-independent forms (incl. labels containing table words, one phrase repeated up to 30 times) must be identical under every language tag.',
}
KIND = {
 'C01': 'hostile generated workload + panic / step-budget (hook H1) / CPU-watchdog / slot-shape / sentinel monitors on the API-boundary event log',
 'C02': 'reference-model monitor (independent double-precision evaluator) over generated expression trees, with witness shrinking',
 'C03': 'reference-model monitor (executable environment model with unique values) over generated programs',
 'C04': 'history monitors: differential replay of call histories against history-free executions, session model, invariant hooks H3 (config fingerprint) and started-lines log',
 'C05': 'reference-model monitor (exact rational formulas) over generated phrases',
 'C06': 'reference-model monitor (model rate table) over generated evaluations and update histories, H3 fingerprint diff around updates',
 'C07': 'reference-model monitor (exact decimal rounding / grouping oracle) over boundary-value workloads',
 'C08': 'metamorphic monitor over paired executions under two separator configurations',
 'C09': 'reference-model monitor (Python datetime) under a frozen virtual clock, defect models for known findings',
 'C10': 'reference-model monitor (unit lengths, greedy decomposition) in every language',
 'C11': 'reference-model monitor (zone table arithmetic) under injected default zones and process TZ',
 'C12': 'reference-model monitor (exact unit definitions) incl. metamorphic round-trip / two-step relations',
 'C13': 'reference-model monitor (Python int/format) plus print-read round trip',
 'C14': 'reference-model monitor (Python datetime / timegm) under a frozen virtual clock, inverse-law checks through variables',
 'C15': 'round-trip monitor: printed output re-fed as input, adaptive second pass',
 'C16': 'metamorphic monitor over rewritten lines (blanks, comments, case)',
 'C17': 'invariant monitor on highlight-token event data of every evaluated line + exact-span oracle for structured lines',
 'C18': 'history monitor: model calculator + replay-equivalence against a fresh calculator, H3 fingerprint as lead',
 'C19': 'metamorphic monitor across language tags with word-by-word translation from the configured tables',
}
TECHNIQUE = {k: 'runtime monitoring: ' + v for k, v in KIND.items()}
NOTE = 'Trusted: the driver (/verif/driver) faithfully reports API results; the frozen-clock shim; Python float = IEEE double; config.json is the source of "configured" data. Reach is limited to what the generators produce (bounds in DESIGN.md section 6).'

def main():
    props = [json.loads(l) for l in open(os.path.join(ROOT, 'properties.jsonl'))]
    hooks_commits = subprocess.run(['git', '-C', '/repo', 'log', '--format=%H %s'], capture_output=True, text=True).stdout.splitlines()
    hook_shas = [l.split()[0] for l in hooks_commits if l.split(' ', 1)[1].startswith('verif hooks')]
    checks, na = [], []
    for p in props:
        pid = p['id']
        mod = os.path.join(ROOT, 'scverif', pid.lower() + '.py')
        if os.path.exists(mod) and pid in LEVEL_TEXT:
            checks.append({
                'property_id': pid,
                'quick_cmd': './verif check %s --tier quick' % pid,
                'thorough_cmd': './verif check %s --tier thorough' % pid,
                'evidence_file': 'evidence/%s.json' % pid,
                'replay_cmd_template': './verif replay {path}',
                'engine': 'scverif',
                'level_claimed': {'category': 'exploration', 'text': LEVEL_TEXT[pid], 'design_ref': 'DESIGN.md section 3, %s' % pid},
                'level_note': NOTE,
                'technique': TECHNIQUE[pid],
            })
        else:
            na.append({'property_id': pid, 'reason': 'monitor designed (DESIGN.md section 3) but not built yet at this commit; not claimed'})
    manifest = {
        'version': 1,
        'setup_cmd': './verif setup',
        'hooks': {
            'guard': 'cargo feature "verif" (off by default)',
            'enable': 'the driver crate /verif/driver depends on smartcalc = { path = "/repo", features = ["verif"] } and is rebuilt by every check',
            'baseline_off_cmd': 'cd /repo && cargo test --workspace --no-fail-fast --offline',
            'source_commits': hook_shas,
            'add_only': True,
        },
        'engines': [{'name': 'scverif', 'path': 'scverif/', 'serves_properties': [c['property_id'] for c in checks],
                     'kind_free_text': 'runtime monitoring: Rust op-script driver over the public API (hooks on) + Python generators, reference-model / invariant / metamorphic monitors, frozen virtual clock'}],
        'checks': checks,
        'not_applicable': na,
        'notes': 'Exit codes: 0 held on what was observed, 1 violated (VIOLATION line), 2 inconclusive (INCONCLUSIVE line, never a VIOLATION). Known findings: KNOWN_FINDINGS.txt.',
    }
    with open(os.path.join(ROOT, 'MANIFEST.json'), 'w') as f:
        json.dump(manifest, f, indent=1)
    print('%d checks, %d not claimed' % (len(checks), len(na)))

if __name__ == '__main__':
    main()

#!/usr/bin/env python3
"""Regenerate MANIFEST.json from the monitors that exist (run from /verif)."""
import json, os, subprocess, sys
ROOT = os.path.dirname(os.path.dirname(os.path.abspath(__file__)))
sys.path.insert(0, ROOT)

LEVEL_TEXT = {
 'C01': 'Held-on-observed: 10^5-10^7 hostile texts per run (lexeme soup over the whole lexicon, mutated test lines, extreme phrases, case-length-changing Unicode, multi-line assemblies with sentinels) under hostile configurations, unknown language tags, several virtual dates and process zones; oracle = no panic / step budget (hook H1) / CPU watchdog / slot count / slot shape / sentinel values. Totality over all inputs cannot be proved by running; bounded progress replaces "terminates".',
 'C02': 'Held-on-observed: random and small-exhaustive expression trees rendered in several spacings and separator conventions, compared bit-exactly with an independent IEEE-double evaluation of the same tree; violating cases are shrunk structurally before being classified.',
}
TECHNIQUE = {
 'C01': 'runtime monitoring: hostile generated workload + panic/step-budget/CPU-watchdog/slot-shape/sentinel monitors on the API-boundary event log',
 'C02': 'runtime monitoring: reference-model monitor (independent double-precision evaluator) over generated expression trees, with witness shrinking',
}
NOTE = 'Trusted: the driver (/verif/driver) faithfully reports API results; the frozen-clock shim; Python float = IEEE double; config.json is the source of "configured" data. Reach is limited to what the generators produce (bounds in DESIGN.md section 6).'

def main():
    props = [json.loads(l) for l in open(os.path.join(ROOT, 'properties.jsonl'))]
    hooks_commits = subprocess.run(['git', '-C', '/repo', 'log', '--format=%H %s'], capture_output=True, text=True).stdout.splitlines()
    hook_shas = [l.split()[0] for l in hooks_commits if l.split(' ', 1)[1].startswith('verif hooks')]
    checks, na = [], []
    for p in props:
        pid = p['id']
        mod = os.path.join(ROOT, 'scverif', pid.lower() + '.py')
        if os.path.exists(mod) and pid in LEVEL_TEXT:
            checks.append({
                'property_id': pid,
                'quick_cmd': './verif check %s --tier quick' % pid,
                'thorough_cmd': './verif check %s --tier thorough' % pid,
                'evidence_file': 'evidence/%s.json' % pid,
                'replay_cmd_template': './verif replay {path}',
                'engine': 'scverif',
                'level_claimed': {'category': 'exploration', 'text': LEVEL_TEXT[pid], 'design_ref': 'DESIGN.md section 3, %s' % pid},
                'level_note': NOTE,
                'technique': TECHNIQUE[pid],
            })
        else:
            na.append({'property_id': pid, 'reason': 'monitor designed (DESIGN.md section 3) but not built yet at this commit; not claimed'})
    manifest = {
        'version': 1,
        'setup_cmd': './verif setup',
        'hooks': {
            'guard': 'cargo feature "verif" (off by default)',
            'enable': 'the driver crate /verif/driver depends on smartcalc = { path = "/repo", features = ["verif"] } and is rebuilt by every check',
            'baseline_off_cmd': 'cd /repo && cargo test --workspace --no-fail-fast --offline',
            'source_commits': hook_shas,
            'add_only': True,
        },
        'engines': [{'name': 'scverif', 'path': 'scverif/', 'serves_properties': [c['property_id'] for c in checks],
                     'kind_free_text': 'runtime monitoring: Rust op-script driver over the public API (hooks on) + Python generators, reference-model / invariant / metamorphic monitors, frozen virtual clock'}],
        'checks': checks,
        'not_applicable': na,
        'notes': 'Exit codes: 0 held on what was observed, 1 violated (VIOLATION line), 2 inconclusive (INCONCLUSIVE line, never a VIOLATION). Known findings: KNOWN_FINDINGS.txt.',
    }
    with open(os.path.join(ROOT, 'MANIFEST.json'), 'w') as f:
        json.dump(manifest, f, indent=1)
    print('%d checks, %d not claimed' % (len(checks), len(na)))

if __name__ == '__main__':
    main()

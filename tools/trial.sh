#!/bin/sh
# usage: tools/trial.sh <patch.diff> <property> [budget_s]   -- apply a seeded change to /repo, run the check, undo it
patch="$1"; prop="$2"; budget="${3:-20}"
cd /verif || exit 2
if ! git -C /repo diff --quiet; then echo "/repo has uncommitted changes"; exit 2; fi
git -C /repo apply "$patch" || { echo "patch does not apply"; exit 2; }
./verif check "$prop" --budget "$budget" > /tmp/trial_$prop.out 2>&1
rc=$?
git -C /repo checkout -- . 
echo "rc=$rc"
grep -E "^(VIOLATION|KNOWN-FINDING|INCONCLUSIVE|NOTE)|signature" /tmp/trial_$prop.out | head -${4:-12}
exit 0

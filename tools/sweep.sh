#!/bin/sh
# usage: tools/sweep.sh <outdir> [budget_s|default] [tier]   -- run every check once (VERIF_SEED honoured), keep the outputs
out="$1"; budget="${2:-10}"; tier="${3:-quick}"
mkdir -p "$out"
cd "$(dirname "$0")/.." || exit 2
b="--budget $budget"; [ "$budget" = default ] && b=""
for p in C01 C02 C03 C04 C05 C06 C07 C08 C09 C10 C11 C12 C13 C14 C15 C16 C17 C18 C19; do
  t0=$(date +%s)
  ./verif check $p --tier $tier $b > "$out/$p.txt" 2>&1
  echo "$p rc=$? $(grep -c '^VIOLATION' $out/$p.txt) violations, $(grep -c '^KNOWN-FINDING' $out/$p.txt) known, $(( $(date +%s) - t0 )) s" 
done

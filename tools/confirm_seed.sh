#!/bin/sh
# usage: tools/confirm_seed.sh <dir with patch.diff and demo.rs> <tag>
# Confirms in a scratch worktree of /repo: builds, existing suite unchanged, demo fails with the change and passes without.
d="$1"; tag="$2"; wt=/tmp/confirm_$tag
out="$d/confirm.txt"
: > "$out"
git -C /repo worktree add -q --detach "$wt" HEAD || exit 2
cd "$wt" || exit 2
mkdir -p tests && cp "$d/demo.rs" tests/demo_seed.rs
# without the change
cargo test --offline --test demo_seed > /tmp/confirm_$tag.demo0 2>&1; r0=$?
echo "demo without change: exit $r0 ($(grep -E '^test result' /tmp/confirm_$tag.demo0 | tr '\n' ' '))" >> "$out"
if git apply "$d/patch.diff"; then echo "patch applies" >> "$out"; else echo "PATCH DOES NOT APPLY" >> "$out"; fi
cargo build --offline > /tmp/confirm_$tag.build 2>&1; echo "build with change: exit $?" >> "$out"
cargo test --offline --test demo_seed > /tmp/confirm_$tag.demo1 2>&1; r1=$?
echo "demo with change: exit $r1 ($(grep -E '^test result' /tmp/confirm_$tag.demo1 | tr '\n' ' '))" >> "$out"
rm -rf tests
cargo test --offline --lib --no-fail-fast 2>&1 | grep -E '^test .* \.\.\. ' | sort > /tmp/confirm_$tag.suite
pass=$(grep -c '\.\.\. ok' /tmp/confirm_$tag.suite); fail=$(grep '\.\.\. FAILED' /tmp/confirm_$tag.suite | tr '\n' ' ')
echo "suite with change: $pass passed; failed: $fail" >> "$out"
if [ "$r0" = 0 ] && [ "$r1" != 0 ] && [ "$pass" = 142 ]; then echo "CONFIRMED" >> "$out"; else echo "NOT CONFIRMED" >> "$out"; fi
cd /; git -C /repo worktree remove --force "$wt"
rm -f /tmp/confirm_$tag.*
cat "$out"

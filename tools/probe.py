#!/usr/bin/env python3
"""usage: tools/probe.py [--lang en] [--tz UTC] [--zone UTC] [--dec ,] [--thou .] [--clock mid-2026] text...
Evaluates texts on the driver built from /repo's working tree and prints the recorded results ('\\n' in an argument is a line break)."""
import argparse, json, os, sys
sys.path.insert(0, os.path.dirname(os.path.dirname(os.path.abspath(__file__))))
from scverif import core, mon
from scverif import gen_hostile as gh
ap = argparse.ArgumentParser()
ap.add_argument('--lang', default='en'); ap.add_argument('--tz', default='UTC'); ap.add_argument('--zone', default='UTC')
ap.add_argument('--dec', default=','); ap.add_argument('--thou', default='.'); ap.add_argument('--clock', default='mid-2026')
ap.add_argument('--raw', action='store_true')
ap.add_argument('texts', nargs='+')
a = ap.parse_args()
core.build()
drv = core.Driver(core.CLOCKS[a.clock], a.tz, {'ui': a.raw, 'rw': a.raw})
cfg = mon.cfg_with(dec=a.dec, thou=a.thou, tz=a.zone)
rs = mon.run_lines(drv, cfg, [(a.lang, t.replace('\\n', '\n')) for t in a.texts])
for t, r in zip(a.texts, rs):
    if a.raw:
        print(t, '=>', json.dumps(r, ensure_ascii=False))
    else:
        print(t, '=>', [mon.describe(s) if s is not None else None for s in r.get('lines', [])] if 'lines' in r else r)
drv.close()

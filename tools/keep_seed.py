#!/usr/bin/env python3
"""usage: tools/keep_seed.py <src dir> <seed id> <property> <caught: yes|no|partly> <check output file or ''> <needs...>
Copies a confirmed seeded change into /verif/seeded/<seed id>/ with meta.json."""
import json, os, shutil, sys
src, sid, prop, caught, outfile = sys.argv[1:6]
needs = ' '.join(sys.argv[6:])
dst = os.path.join('/verif/seeded', sid)
os.makedirs(dst, exist_ok=True)
for f in ('patch.diff', 'demo.rs', 'notes.md', 'confirm.txt'):
    if os.path.exists(os.path.join(src, f)):
        shutil.copy(os.path.join(src, f), os.path.join(dst, f))
sigs = []
if outfile and os.path.exists(outfile):
    for line in open(outfile):
        if line.startswith('  signature:'):
            sigs.append(line.split(':', 1)[1].strip())
confirm = open(os.path.join(dst, 'confirm.txt')).read().strip().split('\n') if os.path.exists(os.path.join(dst, 'confirm.txt')) else []
meta = {
    'id': sid,
    'breaks_property': prop,
    'origin': 'independent sub-agent given only the property text and a scratch worktree of /repo',
    'needs_to_manifest': needs,
    'confirmed': {'how': 'tools/confirm_seed.sh in a scratch worktree: build, unedited suite (142 pass, date_tests fails as in the baseline), demo passes without and fails with the change', 'log': confirm},
    'check_run': 'tools/trial.sh <patch> %s (git apply in /repo, ./verif check %s, git checkout -- .)' % (prop, prop),
    'detected_by_quick_check': caught,
    'signatures_reported': sigs[:12],
}
json.dump(meta, open(os.path.join(dst, 'meta.json'), 'w'), indent=1)
print('kept', dst)

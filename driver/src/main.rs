// scdriver: op-script interpreter over the public API of smartcalc (built from /repo,
// cargo feature "verif" on). One JSON object per line in, one JSON object per line out,
// flushed per op. See /verif/DESIGN.md section 2.1.

use std::cell::RefCell;
use std::collections::BTreeMap;
use std::io::{BufRead, Write};
use std::panic::{catch_unwind, AssertUnwindSafe};
use std::rc::Rc;

use serde_json::{json, Map, Value};
use smartcalc::{RuleTrait, Session, SmartCalc, SmartCalcAstType, SmartCalcConfig, TokenType};

thread_local! {
    static LAST_PANIC: RefCell<Option<Value>> = RefCell::new(None);
}

fn bits(f: f64) -> String {
    format!("{:016x}", f.to_bits())
}

fn tok_json(token: &TokenType) -> Value {
    match token {
        TokenType::Number(n, t) => json!({"k": "number", "bits": bits(*n), "t": format!("{:?}", t)}),
        TokenType::Percent(n) => json!({"k": "percent", "bits": bits(*n)}),
        TokenType::Money(n, c) => json!({"k": "money", "bits": bits(*n), "code": c.code}),
        TokenType::Duration(d) => json!({"k": "duration", "secs": d.num_seconds()}),
        TokenType::Time(t, tz) => json!({"k": "time", "utc": format!("{}", t), "zone": tz.name, "off": tz.offset}),
        TokenType::Date(d, tz) => json!({"k": "date", "d": format!("{}", d), "zone": tz.name, "off": tz.offset}),
        TokenType::DateTime(t, tz) => json!({"k": "datetime", "utc": format!("{}", t), "zone": tz.name, "off": tz.offset}),
        TokenType::DynamicType(n, t) => json!({"k": "unit", "bits": bits(*n), "group": t.group_name, "index": t.index, "names": t.names}),
        TokenType::Text(s) => json!({"k": "text", "s": s}),
        TokenType::Operator(c) => json!({"k": "operator", "s": c.to_string()}),
        TokenType::Month(m) => json!({"k": "month", "m": m}),
        TokenType::Timezone(n, o) => json!({"k": "timezone", "zone": n, "off": o}),
        TokenType::Field(_) => json!({"k": "field"}),
        TokenType::Variable(v) => {
            let inner = ast_json(&v.data.borrow());
            json!({"k": "variable", "v": inner})
        }
    }
}

fn ast_json(ast: &SmartCalcAstType) -> Value {
    match ast {
        SmartCalcAstType::Item(item) => tok_json(&item.as_token_type()),
        SmartCalcAstType::None => json!({"k": "none"}),
        SmartCalcAstType::Month(m) => json!({"k": "month", "m": m}),
        SmartCalcAstType::Symbol(s) => json!({"k": "symbol", "s": s}),
        other => json!({"k": "other", "type": other.type_name()}),
    }
}

// ---------------------------------------------------------------------------------
// Rule behaviours for add_rule (C18). Every invocation is recorded in `calls`.

struct ScriptRule {
    name: String,
    kind: String,                     // const | decline | encode | money
    value: f64,                       // const: the number; money: multiplier
    weights: BTreeMap<String, f64>,   // encode: field name -> weight
    text_codes: BTreeMap<String, f64>,// encode: (lower-cased) text -> code
    currency: String,                 // money: currency code (lower case)
    amount_field: String,             // money: field holding the count
    decline_unknown_text: bool,       // encode: decline (None) when a text field is not one of text_codes
    calls: Rc<RefCell<Vec<Value>>>,
}

fn field_number(token: &TokenType, text_codes: &BTreeMap<String, f64>) -> Option<f64> {
    match token {
        TokenType::Number(n, _) => Some(*n),
        TokenType::Percent(n) => Some(*n),
        TokenType::Money(n, _) => Some(*n),
        TokenType::DynamicType(n, _) => Some(*n),
        TokenType::Duration(d) => Some(d.num_seconds() as f64),
        TokenType::Month(m) => Some(*m as f64),
        TokenType::Text(s) => Some(*text_codes.get(&s.to_lowercase()).unwrap_or(&-1.0)),
        _ => None,
    }
}

impl RuleTrait for ScriptRule {
    fn name(&self) -> String {
        self.name.clone()
    }

    fn call(&self, config: &SmartCalcConfig, fields: &BTreeMap<String, TokenType>) -> Option<TokenType> {
        let mut received = Map::new();
        for (key, value) in fields.iter() {
            received.insert(key.clone(), tok_json(value));
        }
        self.calls.borrow_mut().push(json!({"rule": self.name, "fields": Value::Object(received)}));
        match &self.kind[..] {
            "const" => Some(TokenType::Number(self.value, smartcalc::NumberType::Decimal)),
            "decline" => None,
            "encode" => {
                let mut total = 0.0;
                for (name, weight) in self.weights.iter() {
                    let token = fields.get(name)?;
                    if self.decline_unknown_text {
                        if let TokenType::Text(text) = token {
                            if !self.text_codes.contains_key(&text.to_lowercase()) {
                                return None;
                            }
                        }
                    }
                    total += weight * field_number(token, &self.text_codes)?;
                }
                Some(TokenType::Number(total, smartcalc::NumberType::Decimal))
            }
            "money" => {
                let count = match fields.get(&self.amount_field) {
                    Some(TokenType::Number(n, _)) => *n,
                    _ => return None,
                };
                Some(TokenType::Money(count * self.value, config.get_currency(self.currency.clone())?))
            }
            _ => None,
        }
    }
}

// ---------------------------------------------------------------------------------

struct Driver {
    calcs: BTreeMap<i64, SmartCalc>,
    sessions: BTreeMap<i64, Session>,
    calls: Rc<RefCell<Vec<Value>>>,
    want_ui: bool,
    want_rw: bool,
    budget_base: u64,
    budget_per_char: u64,
    logger_off: bool,
}

fn s(op: &Value, key: &str) -> String {
    op.get(key).and_then(|v| v.as_str()).unwrap_or("").to_string()
}

fn i(op: &Value, key: &str) -> i64 {
    op.get(key).and_then(|v| v.as_i64()).unwrap_or(0)
}

fn b(op: &Value, key: &str, default: bool) -> bool {
    op.get(key).and_then(|v| v.as_bool()).unwrap_or(default)
}

fn strs(op: &Value, key: &str) -> Vec<String> {
    op.get(key).and_then(|v| v.as_array()).map(|a| a.iter().map(|x| x.as_str().unwrap_or("").to_string()).collect()).unwrap_or_default()
}

fn fmap(op: &Value, key: &str) -> BTreeMap<String, f64> {
    let mut m = BTreeMap::new();
    if let Some(obj) = op.get(key).and_then(|v| v.as_object()) {
        for (k, v) in obj.iter() {
            m.insert(k.clone(), v.as_f64().unwrap_or(0.0));
        }
    }
    m
}

macro_rules! exec_json {
    ($result:expr, $want_ui:expr) => {{
        let result = $result;
        let mut lines = Vec::new();
        for line in result.lines.iter() {
            match line {
                None => lines.push(Value::Null),
                Some(line) => {
                    let mut obj = Map::new();
                    match &line.result {
                        Ok(ok) => {
                            obj.insert("out".into(), Value::String(ok.output.clone()));
                            obj.insert("v".into(), ast_json(&ok.ast));
                        }
                        Err(error) => {
                            obj.insert("err".into(), Value::String(error.clone()));
                        }
                    }
                    if $want_ui {
                        let ui: Vec<Value> = line.ui_tokens.iter().map(|t| json!([t.start, t.end, format!("{:?}", t.ui_type)])).collect();
                        obj.insert("ui".into(), Value::Array(ui));
                    }
                    lines.push(Value::Object(obj));
                }
            }
        }
        json!({"status": result.status, "lines": lines})
    }};
}

impl Driver {
    fn new() -> Driver {
        Driver {
            calcs: BTreeMap::new(),
            sessions: BTreeMap::new(),
            calls: Rc::new(RefCell::new(Vec::new())),
            want_ui: false,
            want_rw: false,
            budget_base: 200_000,
            budget_per_char: 2_000,
            logger_off: false,
        }
    }

    fn ensure_calc(&mut self, id: i64) {
        if !self.calcs.contains_key(&id) {
            self.calcs.insert(id, SmartCalc::default());
            if !self.logger_off {
                log::set_max_level(log::LevelFilter::Off);
                self.logger_off = true;
            }
        }
    }

    fn run(&mut self, op: &Value) -> Value {
        let name = s(op, "op");
        let c = i(op, "c");
        let text_len = op.get("text").and_then(|v| v.as_str()).map(|t| t.len() as u64).unwrap_or(0);
        smartcalc::verif::reset(self.budget_base + self.budget_per_char * text_len, self.want_rw);
        match &name[..] {
            "ping" => json!({"ok": true}),
            "opts" => {
                self.want_ui = b(op, "ui", self.want_ui);
                self.want_rw = b(op, "rw", self.want_rw);
                if let Some(v) = op.get("budget_base").and_then(|v| v.as_u64()) { self.budget_base = v; }
                if let Some(v) = op.get("budget_per_char").and_then(|v| v.as_u64()) { self.budget_per_char = v; }
                json!({"ok": true})
            }
            "new_calc" => {
                self.calcs.remove(&c);
                self.ensure_calc(c);
                json!({"ok": true})
            }
            "new_calc_json" => {
                // a calculator built from a configuration text (SmartCalc::load_from_json): the file at `path` with the values in `set`
                // ([[json pointer, value], ...]) written over it
                let text = match std::fs::read_to_string(s(op, "path")) { Ok(t) => t, Err(e) => return json!({"driver_error": format!("{}", e)}) };
                let mut doc: Value = match serde_json::from_str(&text) { Ok(d) => d, Err(e) => return json!({"driver_error": format!("{}", e)}) };
                if let Some(edits) = op.get("set").and_then(|v| v.as_array()) {
                    for edit in edits {
                        let pointer = edit.get(0).and_then(|v| v.as_str()).unwrap_or("");
                        let value = edit.get(1).cloned().unwrap_or(Value::Null);
                        if let Some(slot) = doc.pointer_mut(pointer) {
                            *slot = value;
                            continue;
                        }
                        // a new key of an existing object
                        let (parent, key) = match pointer.rfind('/') { Some(at) => (&pointer[..at], &pointer[at + 1..]), None => ("", pointer) };
                        match doc.pointer_mut(parent).and_then(|p| p.as_object_mut()) {
                            Some(map) => { map.insert(key.to_string(), value); },
                            None => return json!({"driver_error": format!("no {} in the configuration", pointer)})
                        }
                    }
                }
                self.calcs.remove(&c);
                // load_from_json does not register the library's logger; do it here so that a later SmartCalc::default() can not switch
                // debug output to stdout on behind the driver's back
                SmartCalc::initialize();
                log::set_max_level(log::LevelFilter::Off);
                self.logger_off = true;
                self.calcs.insert(c, SmartCalc::load_from_json(&doc.to_string()));
                json!({"ok": true})
            }
            "drop_calc" => {
                self.calcs.remove(&c);
                json!({"ok": true})
            }
            "set_dec" => { self.ensure_calc(c); self.calcs.get_mut(&c).unwrap().set_decimal_seperator(s(op, "v")); json!({"ok": true}) }
            "set_thou" => { self.ensure_calc(c); self.calcs.get_mut(&c).unwrap().set_thousand_separator(s(op, "v")); json!({"ok": true}) }
            "set_number_cfg" => { self.ensure_calc(c); self.calcs.get_mut(&c).unwrap().set_number_configuration(i(op, "d") as u8, b(op, "rm", true), b(op, "round", true)); json!({"ok": true}) }
            "set_percent_cfg" => { self.ensure_calc(c); self.calcs.get_mut(&c).unwrap().set_percentage_configuration(i(op, "d") as u8, b(op, "rm", true), b(op, "round", true)); json!({"ok": true}) }
            "set_money_cfg" => { self.ensure_calc(c); self.calcs.get_mut(&c).unwrap().set_money_configuration(b(op, "rm", false), b(op, "round", true)); json!({"ok": true}) }
            "set_timezone" => {
                self.ensure_calc(c);
                match self.calcs.get_mut(&c).unwrap().set_timezone(s(op, "tz")) {
                    Ok(()) => json!({"ok": true}),
                    Err(error) => json!({"ok": false, "err": error}),
                }
            }
            "get_time_offset" => {
                self.ensure_calc(c);
                let offset = self.calcs.get(&c).unwrap().get_time_offset();
                json!({"name": offset.name, "offset": offset.offset})
            }
            "update_currency" => {
                self.ensure_calc(c);
                let rate = match op.get("bits").and_then(|v| v.as_str()) {
                    Some(hex) => f64::from_bits(u64::from_str_radix(hex, 16).unwrap_or(0)),
                    None => op.get("rate").and_then(|v| v.as_f64()).unwrap_or(0.0),
                };
                json!({"ok": self.calcs.get_mut(&c).unwrap().update_currency(&s(op, "cur"), rate)})
            }
            "add_rule" => {
                self.ensure_calc(c);
                let spec = op.get("spec").cloned().unwrap_or(json!({}));
                let rule = Rc::new(ScriptRule {
                    name: s(&spec, "name"),
                    kind: s(&spec, "kind"),
                    value: spec.get("value").and_then(|v| v.as_f64()).unwrap_or(0.0),
                    weights: fmap(&spec, "weights"),
                    text_codes: fmap(&spec, "text_codes"),
                    currency: s(&spec, "currency"),
                    amount_field: s(&spec, "amount_field"),
                    decline_unknown_text: spec.get("decline_unknown_text").and_then(|v| v.as_bool()).unwrap_or(false),
                    calls: self.calls.clone(),
                });
                json!({"ok": self.calcs.get_mut(&c).unwrap().add_rule(s(op, "lang"), strs(op, "patterns"), rule)})
            }
            "set_date_rule" => {
                self.ensure_calc(c);
                self.calcs.get_mut(&c).unwrap().set_date_rule(&s(op, "lang"), strs(op, "patterns"));
                json!({"ok": true})
            }
            "delete_rule" => {
                self.ensure_calc(c);
                json!({"ok": self.calcs.get_mut(&c).unwrap().delete_rule(s(op, "lang"), s(op, "name"))})
            }
            "add_type" => {
                self.ensure_calc(c);
                json!({"ok": self.calcs.get_mut(&c).unwrap().add_dynamic_type(s(op, "name"))})
            }
            "add_type_item" => {
                self.ensure_calc(c);
                let digits = op.get("digits").and_then(|v| v.as_u64()).map(|v| v as u8);
                let round = op.get("round").and_then(|v| v.as_bool());
                let rm = op.get("rm").and_then(|v| v.as_bool());
                let ok = self.calcs.get_mut(&c).unwrap().add_dynamic_type_item(s(op, "name"), i(op, "index") as usize, s(op, "format"), strs(op, "parse"), s(op, "up"), s(op, "down"), strs(op, "names"), digits, round, rm);
                json!({"ok": ok})
            }
            "fingerprint" => {
                self.ensure_calc(c);
                let fp = self.calcs.get(&c).unwrap().verif_fingerprint();
                let mut h: u64 = 0xcbf29ce484222325;
                for byte in fp.as_bytes() { h ^= *byte as u64; h = h.wrapping_mul(0x100000001b3); }
                if b(op, "full", false) { json!({"h": format!("{:016x}", h), "fp": fp}) } else { json!({"h": format!("{:016x}", h)}) }
            }
            "execute" => {
                self.ensure_calc(c);
                let value = exec_json!(self.calcs.get(&c).unwrap().execute(s(op, "lang"), s(op, "text")), self.want_ui);
                self.finish_execute(value)
            }
            "session_new" => {
                self.sessions.insert(i(op, "s"), Session::new());
                json!({"ok": true})
            }
            "session_set_text" => {
                match self.sessions.get_mut(&i(op, "s")) {
                    Some(session) => { session.set_text(s(op, "text")); json!({"ok": true}) }
                    None => json!({"driver_error": "no such session"}),
                }
            }
            "session_set_language" => {
                match self.sessions.get_mut(&i(op, "s")) {
                    Some(session) => { session.set_language(s(op, "lang")); json!({"ok": true}) }
                    None => json!({"driver_error": "no such session"}),
                }
            }
            "execute_session" => {
                self.ensure_calc(c);
                let session = match self.sessions.get(&i(op, "s")) {
                    Some(session) => session,
                    None => return json!({"driver_error": "no such session"}),
                };
                let value = exec_json!(self.calcs.get(&c).unwrap().execute_session(session), self.want_ui);
                self.finish_execute(value)
            }
            _ => json!({"driver_error": format!("unknown op {}", name)}),
        }
    }

    fn finish_execute(&mut self, mut value: Value) -> Value {
        if self.want_rw {
            let rewrites: Vec<Value> = smartcalc::verif::take_rewrites().iter().map(|r| json!([r.stage, r.name, r.active_before, r.active_after])).collect();
            value["rw"] = Value::Array(rewrites);
            value["ln"] = json!(smartcalc::verif::take_lines());
        }
        value
    }
}

fn main() {
    std::panic::set_hook(Box::new(|info| {
        let msg = if let Some(s) = info.payload().downcast_ref::<&str>() {
            s.to_string()
        } else if let Some(s) = info.payload().downcast_ref::<String>() {
            s.clone()
        } else {
            "<non-string panic payload>".to_string()
        };
        let loc = info.location().map(|l| format!("{}:{}", l.file(), l.line())).unwrap_or_default();
        let backtrace = std::backtrace::Backtrace::force_capture().to_string();
        // first frame inside the smartcalc crate that is not a hook
        let mut func = String::new();
        for line in backtrace.lines() {
            let line = line.trim();
            if let Some(pos) = line.find(": ") {
                let symbol = &line[pos + 2..];
                if (symbol.starts_with("smartcalc::") || symbol.starts_with("<smartcalc::")) && !symbol.contains("smartcalc::verif::") {
                    func = symbol.to_string();
                    break;
                }
            }
        }
        LAST_PANIC.with(|p| *p.borrow_mut() = Some(json!({"msg": msg, "loc": loc, "fn": func})));
    }));

    let child = std::thread::Builder::new().stack_size(256 << 20).spawn(|| {
        let stdin = std::io::stdin();
        let stdout = std::io::stdout();
        let mut out = std::io::BufWriter::new(stdout.lock());
        let mut driver = Driver::new();
        for (index, line) in stdin.lock().lines().enumerate() {
            let line = match line { Ok(line) => line, Err(_) => break };
            if line.trim().is_empty() { continue; }
            let op: Value = match serde_json::from_str(&line) {
                Ok(op) => op,
                Err(error) => {
                    writeln!(out, "{}", json!({"i": index, "driver_error": format!("bad op: {}", error)})).ok();
                    out.flush().ok();
                    continue;
                }
            };
            driver.calls.borrow_mut().clear();
            let outcome = catch_unwind(AssertUnwindSafe(|| driver.run(&op)));
            let mut value = match outcome {
                Ok(value) => value,
                Err(_) => {
                    let info = LAST_PANIC.with(|p| p.borrow_mut().take()).unwrap_or(json!({"msg": "?"}));
                    json!({"panic": info})
                }
            };
            value["i"] = json!(index);
            value["steps"] = json!(smartcalc::verif::steps());
            let calls: Vec<Value> = driver.calls.borrow_mut().drain(..).collect();
            if !calls.is_empty() {
                value["calls"] = Value::Array(calls);
            }
            writeln!(out, "{}", value).ok();
            out.flush().ok();
        }
    }).expect("spawn");
    child.join().ok();
}

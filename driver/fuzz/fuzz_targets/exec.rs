// Coverage-guided workload generator for C01 (DESIGN.md 3.C01, lens 6). libFuzzer only *produces* inputs:
// every artifact and a sample of the corpus are re-run through scdriver and judged by the C01 monitor.
// Input layout: byte 0 selects the language tag and the configuration, the rest is the text (UTF-8, lossy).
#![no_main]

use libfuzzer_sys::fuzz_target;
use smartcalc::SmartCalc;
use std::cell::RefCell;

thread_local! {
    static CALCS: RefCell<Vec<SmartCalc>> = RefCell::new(Vec::new());
}

const LANGS: [&str; 4] = ["en", "tr", "xx", "en"];

fuzz_target!(|data: &[u8]| {
    if data.is_empty() || data.len() > 4097 {
        return;
    }
    CALCS.with(|calcs| {
        let mut calcs = calcs.borrow_mut();
        if calcs.is_empty() {
            for k in 0..4 {
                let mut calc = SmartCalc::default();
                match k {
                    1 => { calc.set_decimal_seperator(".".to_string()); calc.set_thousand_separator(",".to_string()); }
                    2 => { calc.set_decimal_seperator(".".to_string()); calc.set_thousand_separator("".to_string()); let _ = calc.set_timezone("GMT+5:30".to_string()); }
                    3 => { calc.set_number_configuration(9, false, false); let _ = calc.set_timezone("EST".to_string()); }
                    _ => {}
                }
                calcs.push(calc);
            }
            log::set_max_level(log::LevelFilter::Off);
        }
        let sel = data[0] as usize;
        let lang = LANGS[sel & 3];
        let calc = &calcs[(sel >> 2) & 3];
        let text = String::from_utf8_lossy(&data[1..]).to_string();
        let lines = text.split('\n').count();
        smartcalc::verif::reset(200_000 + 2_000 * text.len() as u64, false);
        let result = calc.execute(lang, &text[..]);
        assert!(result.status, "status false");
        assert_eq!(result.lines.len(), lines, "slot count");
    });
});
